"""Independent recogniser of the CL text syntax (parser/CKB.g4, docs/CL_SYNTAX.md): a hand-written
tokeniser and recursive-descent recogniser, used only to decide whether a (mutated) text is in the
language.  It never builds formulas.  Cross-checked against the ANTLR parser on well-formed texts
by C10 itself (every well-formed text must be accepted by both)."""
import re

TOK = re.compile(r'''
    (?P<WS>[ \t]+)
  | (?P<COMMENT>//[^\r\n]*)
  | (?P<BLOCK>/\*.*?\*/)
  | (?P<NL>\r\n|\n|\r)
  | (?P<ID>[A-Za-z][0-9A-Za-z_\-]*)
  | (?P<P>[,;!()|{}])
''', re.X | re.S)


class Bad(Exception):
    pass


def tokens(text):
    out = []
    i = 0
    while i < len(text):
        m = TOK.match(text, i)
        if not m:
            raise Bad('illegal character %r at %d' % (text[i], i))
        k = m.lastgroup
        if k == 'NL':
            out.append(('NL', '\n'))
        elif k == 'ID':
            v = m.group()
            out.append((v, v) if v in ('signature', 'conditionals') else ('ID', v))
        elif k == 'P':
            out.append((m.group(), m.group()))
        i = m.end()
    out.append(('EOF', ''))
    return out


class R:
    def __init__(self, toks):
        self.t = toks
        self.i = 0

    def peek(self):
        return self.t[self.i][0]

    def eat(self, k):
        if self.peek() != k:
            raise Bad('expected %s, found %s at token %d' % (k, self.peek(), self.i))
        self.i += 1

    def nls(self):
        n = 0
        while self.peek() == 'NL':
            self.i += 1
            n += 1
        return n

    # formula: '!' f | f ',' f | f ';' f | '(' f ')' | ID       (any association is fine)
    def formula(self):
        self.unary()
        while self.peek() in (',', ';'):
            self.i += 1
            self.unary()

    def unary(self):
        k = self.peek()
        if k == '!':
            self.i += 1
            self.unary()
        elif k == '(':
            self.i += 1
            self.formula()
            self.eat(')')
        elif k == 'ID':
            self.i += 1
        else:
            raise Bad('formula expected, found %s at token %d' % (k, self.i))

    def condition(self):
        while True:
            self.eat('(')
            self.formula()
            self.eat('|')
            self.formula()
            self.eat(')')
            if self.peek() == ',':
                self.i += 1
                self.nls()
                continue
            self.nls()
            return

    def conditionals(self):
        self.nls()
        self.eat('conditionals')
        if not self.nls():
            raise Bad('newline expected after "conditionals"')
        self.eat('ID')
        self.nls()
        self.eat('{')
        self.nls()
        if self.peek() != '}':
            self.condition()
        self.eat('}')
        self.nls()

    def ckbs(self):
        self.nls()
        self.eat('signature')
        if not self.nls():
            raise Bad('newline expected after "signature"')
        self.eat('ID')
        while self.peek() == ',':
            self.i += 1
            self.eat('ID')
        self.eat('NL')
        self.conditionals()
        while self.peek() in ('conditionals', 'NL'):
            self.conditionals()
        self.eat('EOF')


def is_formula(text, allow_trailing_newlines=True):
    try:
        r = R(tokens(text))
        r.formula()
        if allow_trailing_newlines:
            r.nls()
        r.eat('EOF')
        return True
    except Bad:
        return False


def is_base(text):
    try:
        R(tokens(text)).ckbs()
        return True
    except Bad:
        return False


def is_query_list(text):
    """what parse_queries documents for a plain list: conditions separated by ','"""
    try:
        r = R(tokens(text))
        r.nls()
        r.condition()
        r.eat('EOF')
        return True
    except Bad:
        return False

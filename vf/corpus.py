"""G5: shipped corpora and large generated bases (any-size reach for the relational monitors)."""
import glob
import os
import re

from . import fml, gen
from .fml import V, Not, And, Or

EX = os.path.join(os.environ.get('VERIF_REPO', '/repo'), 'examples')
_cache = {}


def random_large(max_atoms=60):
    """sorted list of (atoms, conds, path)"""
    k = ('rl', max_atoms)
    if k not in _cache:
        out = []
        for p in glob.glob(os.path.join(EX, 'random_large', 'randomTest_*.cl')):
            m = re.search(r'randomTest_(\d+)_(\d+)_(\d+)\.cl$', p)
            a, c, i = map(int, m.groups())
            if a <= max_atoms:
                out.append((a, c, i, p))
        out.sort()
        _cache[k] = out
    return _cache[k]


def other_corpora():
    k = 'other'
    if k not in _cache:
        ps = []
        for pat in ('birds/kb_birds*.cl', 'gen/kb_gen*.cl', 'AO_Beispiele_Konditionale_KBs/*/KB_*/kb_*.cl',
                    '484_inference_relations_representatives/kb*.cl'):
            ps += sorted(glob.glob(os.path.join(EX, pat)))
        _cache[k] = ps
    return _cache[k]


def load(path):
    """(bb, sig, conds_ast) through the repository's parser; ASTs read back structurally"""
    from parser.Wrappers import parse_belief_base
    bb = parse_belief_base(path)
    conds = [(fml.from_pysmt(c.consequence), fml.from_pysmt(c.antecedence)) for c in bb.conditionals.values()]
    return bb, list(bb.signature), conds


def real_partition(bb, weakly=False):
    """tolerance partition as positions, computed by the code under test (used only to SHAPE queries for
    bases too large to enumerate; a wrong partition makes the queries less targeted, nothing else)"""
    try:
        from inference.consistency_sat import consistency_indices
        part, _ = consistency_indices(bb, 'z3', weakly)
        if not part:
            return None
        pos = {k: i for i, k in enumerate(bb.conditionals.keys())}
        layers = [[pos[k] for k in layer] for layer in part]
        return layers[:-1] if weakly else layers
    except Exception:
        return None


def tie_query_large(rng, sig, conds, layers):
    cand = [l for l in layers if len(l) >= 2]
    if not cand:
        return None
    layer = cand[-1] if rng.random() < 0.6 else rng.choice(cand)
    js = rng.sample(layer, min(len(layer), rng.randint(2, 3)))
    A = None
    for j in js:
        Bj, Aj = conds[j]
        t = And(Aj, Not(Bj))
        A = t if A is None else Or(A, t)
    Bq, _ = conds[rng.choice(layer)] if rng.random() < 0.6 else rng.choice(conds)
    return (Bq if rng.random() < 0.6 else Not(Bq), A)


def derived_queries(rng, sig, conds, k, layers=None):
    """queries for large bases with a True/False mix: own rules, strengthened antecedents,
    weakened consequents, chained rules, conjunctions of consequents, tie-forcing antecedents"""
    qs = []
    for _ in range(k):
        r = rng.random()
        if layers and rng.random() < 0.3:
            q = tie_query_large(rng, sig, conds, layers)
            if q is not None:
                qs.append(q)
                continue
        B, A = rng.choice(conds)
        if r < 0.15:
            qs.append((B, A))
        elif r < 0.35:
            x = V(rng.choice(sig))
            qs.append((B, And(A, x if rng.random() < 0.5 else Not(x))))
        elif r < 0.5:
            B2, A2 = rng.choice(conds)
            qs.append((And(B, B2) if rng.random() < 0.5 else Or(B, B2), A))
        elif r < 0.65:
            B2, A2 = rng.choice(conds)
            qs.append((B2, And(A, B)))                     # chaining through the consequent
        elif r < 0.75:
            qs.append((Not(B), A))
        elif r < 0.85:
            B2, A2 = rng.choice(conds)
            qs.append((B, Or(A, A2)))
        elif r < 0.92:
            B2, A2 = rng.choice(conds)
            qs.append((B2, A))
        else:
            qs.append((fml.rand_formula(rng, sig[:8] if len(sig) > 8 else sig, 2, 0.02),
                       fml.rand_formula(rng, sig[:8] if len(sig) > 8 else sig, 1, 0.02)))
    return qs


def union_base(rng, parts=None, want='strong'):
    """disjoint union of small generated bases with renamed atoms: dozens of atoms, still
    (weakly) consistent because the parts share no atom"""
    parts = parts or rng.randint(3, 8)
    sig, conds = [], []
    for i in range(parts):
        s, c, _ = gen.gen_base(rng, want=want if (want == 'strong' or i == 0) else 'weak_or_strong')
        m = {a: '%s%d' % (a, i) for a in s}
        for (B, A) in c:
            fml.atoms(B, set()), fml.atoms(A, set())
        allat = set()
        for (B, A) in c:
            fml.atoms(B, allat)
            fml.atoms(A, allat)
        m.update({a: '%s%d' % (a, i) for a in allat})
        sig += [m[a] for a in s]
        conds += [(fml.rename(B, m), fml.rename(A, m)) for (B, A) in c]
    rng.shuffle(conds)
    return sig, conds

"""Long-lived case executor: JSON-lines in (cases), JSON-lines out (results)."""
import faulthandler
import json
import os
import signal
import sys
import traceback


class SoftTimeout(BaseException):
    pass


FIRED = [False]


def _alarm(*a):
    FIRED[0] = True
    raise SoftTimeout()


def main():
    pid = sys.argv[1]
    proto = os.fdopen(os.dup(1), 'w')
    os.dup2(2, 1)                     # anything printed by the code under test goes to the log
    sys.stdout = sys.stderr
    faulthandler.enable(file=sys.stderr)
    import importlib
    mod = importlib.import_module('vf.props.' + pid.lower())
    soft = getattr(mod, 'SOFT_TIMEOUT', 90)
    signal.signal(signal.SIGALRM, _alarm)
    st = None
    if hasattr(mod, 'selftest'):
        try:
            mod.selftest()
        except BaseException:
            st = 'oracle self-test failed: ' + traceback.format_exc()[-600:]
    for line in sys.stdin:
        line = line.strip()
        if not line:
            continue
        case = json.loads(line)
        import time as _time
        _t0 = _time.time()
        if st:
            res = {'inconclusive': [st]}
        else:
            try:
                FIRED[0] = False
                signal.alarm(soft)
                # every 23rd case of every check runs with the root log level at DEBUG: the library guards
                # extra work with logger.isEnabledFor(DEBUG), and answers must not depend on the log level
                import logging
                dbg = isinstance(case.get('idx'), int) and case['idx'] % 23 == 7
                root = logging.getLogger()
                lvl = root.level
                if dbg:
                    root.setLevel(logging.DEBUG)
                try:
                    res = mod.run_case(case)
                finally:
                    root.setLevel(lvl)
                if dbg and isinstance(res, dict):
                    res.setdefault('counters', {})['cases_with_debug_log_level'] = 1
                signal.alarm(0)
                if FIRED[0]:
                    # the watchdog's exception was raised inside a native callback and came back wrapped in
                    # another exception type (ctypes.ArgumentError 'argument 1: SoftTimeout' from z3), so the
                    # case carried on: whatever it recorded after that point is not an observation of the library
                    res = {'inconclusive': ['soft watchdog (%ds) fired inside a native call' % soft]}
            except SoftTimeout:
                res = {'inconclusive': ['soft watchdog (%ds) fired' % soft]}
            except BaseException:
                signal.alarm(0)
                res = {'inconclusive': ['harness error: ' + traceback.format_exc()[-1500:]]}
        res['_t'] = round(_time.time() - _t0, 2)
        proto.write(json.dumps(res, default=str) + '\n')
        proto.flush()


if __name__ == '__main__':
    main()

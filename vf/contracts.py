"""I2: runtime contracts on internal stage boundaries of the real functions, applied from the
harness (icontract when importable, an equivalent hand-written wrapper otherwise).  Conditions
record a verdict and return True: a raising contract would abort the execution it observes.
"""
import functools
import itertools

from . import fml, sat
from . import impl  # noqa: F401

try:
    import icontract
    HAVE_ICONTRACT = True
except Exception:  # tooling absence must never become a property verdict
    icontract = None
    HAVE_ICONTRACT = False


class Log:
    def __init__(self):
        self.reset()

    def reset(self):
        self.violations = []
        self.counters = {}
        self.nontrivial = []

    def bump(self, k, n=1):
        self.counters[k] = self.counters.get(k, 0) + n

    def max(self, k, v):
        self.counters[k] = max(self.counters.get(k, 0), v)

    def viol(self, sig, **detail):
        if len(self.violations) < 50:
            self.violations.append({'sig': sig, 'detail': detail})


LOG = Log()
MAX_ATOMS = 7
_installed = []


def _wrap(cls, name, pre, post):
    """post(pre_value, self, *args, result) records and returns nothing"""
    orig = getattr(cls, name)

    @functools.wraps(orig)
    def wrapper(self, *a, **kw):
        old = pre(self, *a, **kw) if pre else None
        result = orig(self, *a, **kw)
        try:
            post(old, self, a, kw, result)
        except Exception as e:   # a broken monitor is an inconclusive observation, not a verdict
            LOG.bump('contract_errors')
            LOG.counters.setdefault('contract_error_examples', [])
            if len(LOG.counters['contract_error_examples']) < 3:
                LOG.counters['contract_error_examples'].append('%s.%s: %s: %s' % (cls.__name__, name, type(e).__name__, str(e)[:200]))
        return result
    setattr(cls, name, wrapper)
    _installed.append((cls, name, orig))


def uninstall():
    while _installed:
        cls, name, orig = _installed.pop()
        setattr(cls, name, orig)


# ------------------------------------------------------------------ helpers
def atom_ids(es, names):
    """atom name -> pool id for the z3 constants known to the pool"""
    import z3
    pool = es['pool']
    out = {}
    for obj, i in list(pool.obj2id.items()):
        if isinstance(obj, z3.ExprRef) and z3.is_const(obj) and obj.decl().kind() == z3.Z3_OP_UNINTERPRETED:
            out[obj.decl().name()] = i
    return {n: out[n] for n in names if n in out}


def pool_keyed_by_z3(es):
    """the monitors map clause variables to atoms through the id pool's z3-expression keys; if the pool holds
    no such key (although clauses exist) the library maps variables differently and nothing can be judged"""
    import z3
    try:
        return any(isinstance(o, z3.ExprRef) for o in es['pool'].obj2id) or False
    except Exception:
        return False


def only_helper_constants(es, clauses):
    """every variable of the clauses belongs to a string-keyed helper of the pool (e.g. the encoding of an
    unsatisfiable clause): no atom mapping is needed to judge such a clause set"""
    try:
        helper_ids = {i for o, i in es['pool'].obj2id.items() if isinstance(o, str)}
        return all(abs(l) in helper_ids for c in clauses for l in c)
    except Exception:
        return False


def cond_ast(c):
    return fml.from_pysmt(c.consequence), fml.from_pysmt(c.antecedence)


def units_for(w, names, ids):
    n = len(names)
    u = []
    for i, a in enumerate(names):
        if a in ids:
            u.append(ids[a] if (w >> (n - 1 - i)) & 1 else -ids[a])
    return u


def names_of(es, extra=()):
    names = list(es['belief_base'].signature)
    for c in es['belief_base'].conditionals.values():
        for a in sorted(fml.atoms(cond_ast(c)[0]) | fml.atoms(cond_ast(c)[1])):
            if a not in names:
                names.append(a)
    for a in extra:
        if a not in names:
            names.append(a)
    return names


def check_cnf(es, clauses, want_tt, names, what, text, formula_atoms=()):
    """clauses /\\ assignment satisfiable  <=>  assignment in want_tt, for every assignment"""
    ids = atom_ids(es, names)
    if any(c for c in clauses) and not pool_keyed_by_z3(es) and not only_helper_constants(es, clauses):
        # no atom of the signature is known to the id pool under its name: the mapping this monitor relies on
        # is not the one the library uses (any more) — no verdict
        LOG.bump('cnf_monitor_not_attached')
        return True
    LOG.bump('cnf_checked')
    aux = {abs(l) for c in clauses for l in c} - set(ids.values())
    if len(clauses) >= 2 or aux:
        LOG.bump('cnf_nontrivial')
        LOG.nontrivial.append(fml_hash(what, text))
    LOG.max('max_clauses', len(clauses))
    for w in range(1 << len(names)):
        LOG.bump('cnf_assignments')
        s = sat.solve(clauses, units_for(w, names, ids))
        e = bool((want_tt >> w) & 1)
        if s != e:
            LOG.viol('cnf:%s:%s' % (what, 'satisfiable-but-should-not' if s else 'unsatisfiable-but-should'),
                     conditional=text, assignment=fml.world_str(w, names), atoms=names, clauses=clauses[:12])
            return False
    return True


def fml_hash(*parts):
    import hashlib
    import json
    return hashlib.sha1(json.dumps(parts, default=str).encode()).hexdigest()[:12]


def minimal_sets(family):
    fam = set(family)
    return {x for x in fam if not any(y < x for y in fam)}


# ------------------------------------------------------------------ contracts
def install_cnf_contracts():
    from inference.tseitin_transformation import TseitinTransformation as TT

    def post_bb(old, self, a, kw, result):
        v, f, nf = (list(a) + [kw.get('v'), kw.get('f'), kw.get('nf')])[:3] if len(a) < 3 else a[:3]
        es = self.epistemic_state
        names = names_of(es)
        if len(names) > MAX_ATOMS:
            LOG.bump('cnf_skipped_too_many_atoms')
            return
        F = fml.full(len(names))
        for key, c in es['belief_base'].conditionals.items():
            B, A = cond_ast(c)
            ta, tb = fml.tt(A, names), fml.tt(B, names)
            fa = fml.atoms(A) | fml.atoms(B)
            text = str(c)
            if v:
                check_cnf(es, es['v_cnf_dict'][key], ta & tb, names, 'verification', text, fa)
            if f:
                check_cnf(es, es['f_cnf_dict'][key], ta & ~tb & F, names, 'falsification', text, fa)
            if nf:
                check_cnf(es, es['nf_cnf_dict'][key], F & ~(ta & ~tb), names, 'non-falsification', text, fa)

    def post_q(old, self, a, kw, result):
        query = a[0] if a else kw['query']
        es = self.epistemic_state
        B, A = cond_ast(query)
        names = names_of(es, sorted(fml.atoms(B) | fml.atoms(A)))
        if len(names) > MAX_ATOMS:
            LOG.bump('cnf_skipped_too_many_atoms')
            return
        F = fml.full(len(names))
        ta, tb = fml.tt(A, names), fml.tt(B, names)
        if not (isinstance(result, list) and len(result) == 2):
            LOG.viol('cnf:query:bad-result-shape', result=str(result)[:100])
            return
        fa = fml.atoms(A) | fml.atoms(B)
        check_cnf(es, result[0], ta & tb, names, 'query-verification', str(query), fa)
        check_cnf(es, result[1], ta & ~tb & F, names, 'query-falsification', str(query), fa)
    _wrap(TT, 'belief_base_to_cnf', None, post_bb)
    _wrap(TT, 'query_to_cnf', None, post_q)


def install_mcs_contracts():
    from inference.optimizer import OptimizerRC2

    def pre(self, *a, **kw):
        # RC2 appends selector literals to the soft clauses of the WCNF it is given: snapshot first
        wcnf = a[0] if a else kw['wcnf']
        return [list(c) for c in wcnf.hard], [list(c) for c in wcnf.soft]

    def post(old, self, a, kw, result):
        import types
        wcnf = types.SimpleNamespace(hard=old[0], soft=old[1])
        ignore = kw.get('ignore', a[1] if len(a) > 1 else [])
        es = self.epistemic_state
        conds = es['belief_base'].conditionals
        hard_vars = {abs(l) for c in wcnf.hard for l in c}
        # atoms: signature + atoms of conditionals + any z3 constant known to the pool that occurs in hard
        import z3
        extra = []
        for obj, i in list(es['pool'].obj2id.items()):
            if i in hard_vars and isinstance(obj, z3.ExprRef) and z3.is_const(obj) \
                    and obj.decl().kind() == z3.Z3_OP_UNINTERPRETED:
                extra.append(obj.decl().name())
        names = names_of(es, sorted(extra))
        if len(names) > MAX_ATOMS:
            LOG.bump('mcs_skipped_too_many_atoms')
            return
        ids = atom_ids(es, names)
        if (wcnf.hard or wcnf.soft) and not pool_keyed_by_z3(es) and not only_helper_constants(es, list(wcnf.hard) + list(wcnf.soft)):
            LOG.bump('mcs_monitor_not_attached')
            return
        softset = {tuple(c) for c in wcnf.soft}
        soft_keys = [k for k, cl in es['nf_cnf_dict'].items()
                     if k not in ignore and k in conds and all(tuple(c) in softset for c in cl)]
        if wcnf.soft and not soft_keys:
            # soft clauses that are not the stored non-falsification clauses of any conditional: this monitor
            # cannot tell which conditionals they stand for — no verdict
            LOG.bump('mcs_monitor_not_attached')
            return
        F = fml.full(len(names))
        fal = {}
        for k in soft_keys:
            B, A = cond_ast(conds[k])
            fal[k] = fml.tt(A, names) & ~fml.tt(B, names) & F
        fam = set()
        for w in range(1 << len(names)):
            if sat.solve(wcnf.hard, units_for(w, names, ids)):
                fam.add(frozenset(k for k in soft_keys if (fal[k] >> w) & 1))
        exp = minimal_sets(fam)
        LOG.bump('mcs_checked')
        got = [frozenset(x) for x in result]
        extra_kw = [k for k in kw if k not in ('wcnf', 'ignore', 'deadline')] or list(a[3:])
        if extra_kw:
            # the call uses options this monitor does not know (e.g. a request for a subset of the family):
            # only soundness is judged — every returned set must be a minimal member, none twice
            LOG.bump('mcs_calls_with_unknown_options')
            if len(got) != len(set(got)) or not set(got) <= exp:
                LOG.viol('mcs:rc2:returned-set-is-not-a-minimal-member', got=[sorted(x) for x in got],
                         expected_family=[sorted(x) for x in exp], options=[str(k) for k in extra_kw])
            return
        LOG.max('max_minimal_sets', len(exp))
        if len(exp) >= 2 or any(len(x) >= 2 for x in exp):
            LOG.bump('mcs_nontrivial')
            LOG.nontrivial.append(fml_hash(sorted(map(sorted, exp)), [sorted(c) for c in wcnf.hard][:30], es.get('pmaxsat_solver')))
        if len(got) != len(set(got)):
            LOG.viol('mcs:rc2:duplicate-sets', got=[sorted(x) for x in got], engine=es.get('pmaxsat_solver'))
        if set(got) != exp:
            kind = ('not-minimal' if any(any(y < x for y in got) for x in got)
                    else 'missing-set' if exp - set(got) and not (set(got) - exp)
                    else 'spurious-set' if set(got) - exp and not (exp - set(got)) else 'different-family')
            LOG.viol('mcs:rc2:%s' % kind, got=[sorted(x) for x in got], expected=[sorted(x) for x in exp],
                     soft=soft_keys, ignore=list(ignore), engine=es.get('pmaxsat_solver'),
                     hard_satisfiable=bool(fam))
    _wrap(OptimizerRC2, 'minimal_correction_subsets', pre, post)


def z3eval(e, w):
    """pure evaluator of a propositional z3 expression under w: name -> bool"""
    import z3
    if z3.is_true(e):
        return True
    if z3.is_false(e):
        return False
    if z3.is_not(e):
        return not z3eval(e.arg(0), w)
    if z3.is_and(e):
        return all(z3eval(x, w) for x in e.children())
    if z3.is_or(e):
        return any(z3eval(x, w) for x in e.children())
    if z3.is_implies(e):
        return (not z3eval(e.arg(0), w)) or z3eval(e.arg(1), w)
    if z3.is_eq(e) or (z3.is_app(e) and e.decl().kind() == z3.Z3_OP_IFF):
        return z3eval(e.arg(0), w) == z3eval(e.arg(1), w)
    if z3.is_const(e) and e.decl().kind() == z3.Z3_OP_UNINTERPRETED:
        return w[e.decl().name()]
    raise ValueError('unsupported z3 node %s' % e)


def z3atoms(e, acc):
    import z3
    if z3.is_const(e) and e.decl().kind() == z3.Z3_OP_UNINTERPRETED:
        acc.add(e.decl().name())
    for c in e.children():
        z3atoms(c, acc)
    return acc


def install_z3_enum_contracts():
    from inference.system_w_z3 import SystemWZ3
    from inference.lex_inf_z3 import LexInfZ3

    def pre(self, opt, part):
        return list(opt.assertions())

    def mk_post(cname):
        def post(old, self, a, kw, result):
            opt, part = a[0], a[1]
            names = set()
            for x in old:
                z3atoms(x, names)
            for c in part:
                z3atoms(c.make_A_then_not_B(), names)
            names = sorted(names | set(self.epistemic_state['belief_base'].signature))
            if len(names) > MAX_ATOMS:
                LOG.bump('mcs_skipped_too_many_atoms')
                return
            fam = set()
            for bits in itertools.product([False, True], repeat=len(names)):
                w = dict(zip(names, bits))
                if all(z3eval(x, w) for x in old):
                    fam.add(frozenset(i for i, c in enumerate(part) if z3eval(c.make_A_then_not_B(), w)))
            exp = minimal_sets(fam)
            pos = {id(c): i for i, c in enumerate(part)}
            got = {frozenset(pos[id(c)] for c in s) for s in result}
            LOG.bump('mcs_z3_checked')
            if len(exp) >= 2 or any(len(x) >= 2 for x in exp):
                LOG.bump('mcs_nontrivial')
                LOG.nontrivial.append(fml_hash(cname, sorted(map(sorted, exp)), [str(x) for x in old][:20]))
            if got != exp:
                LOG.viol('mcs:%s:different-family' % cname, got=[sorted(x) for x in got],
                         expected=[sorted(x) for x in exp], part=[str(c) for c in part],
                         hard=[str(x) for x in old][:10])
        return post
    _wrap(SystemWZ3, 'get_all_xi_i', pre, mk_post('system-w/z3'))
    _wrap(LexInfZ3, 'get_all_xi_i', pre, mk_post('lex_inf/z3'))

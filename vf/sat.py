"""M9: a tiny DPLL over integer clauses (so that neither z3's tactic nor PySAT judges its own output)."""


def solve(clauses, units=()):
    """True iff clauses + unit literals are satisfiable"""
    assign = {}
    for u in units:
        v = abs(u)
        val = u > 0
        if assign.get(v, val) != val:
            return False
        assign[v] = val
    return _dpll([list(c) for c in clauses], assign)


def _simplify(clauses, assign):
    """returns simplified clause list or None on conflict; performs unit propagation"""
    changed = True
    while changed:
        changed = False
        out = []
        for c in clauses:
            sat = False
            rest = []
            for l in c:
                v = abs(l)
                if v in assign:
                    if assign[v] == (l > 0):
                        sat = True
                        break
                else:
                    rest.append(l)
            if sat:
                continue
            if not rest:
                return None
            if len(rest) == 1:
                l = rest[0]
                assign[abs(l)] = l > 0
                changed = True
            else:
                out.append(rest)
        clauses = out
    return clauses


def _dpll(clauses, assign):
    clauses = _simplify(clauses, assign)
    if clauses is None:
        return False
    if not clauses:
        return True
    l = clauses[0][0]
    for val in (l > 0, not (l > 0)):
        a2 = dict(assign)
        a2[abs(l)] = val
        if _dpll(clauses, a2):
            return True
    return False

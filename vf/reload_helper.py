"""Fresh-interpreter side of C20: load a saved ranking object, complete it, answer queries, print JSON."""
import json
import os
import sys
import warnings

warnings.filterwarnings('ignore')
os.environ.setdefault('INFOCF_LOGLEVEL', 'ERROR')
sys.path.insert(0, os.environ.get('VERIF_REPO', '/repo'))


def main():
    path, qfile = sys.argv[1], sys.argv[2]
    from inference.preocf import PreOCF
    from parser.Wrappers import parse_queries
    o = PreOCF.load_ocf(path, trusted=True)
    out = {'type': type(o).__name__, 'signature': list(o.signature), 'ranks_before': dict(o.ranks),
           'metadata_keys': sorted(k for k in o.metadata if not k.startswith('impacts_'))}
    order = json.load(open(qfile))
    lazy = {}
    for w in order['worlds']:
        try:
            lazy[w] = o.rank_world(w)
        except Exception as e:
            lazy[w] = 'EXC ' + type(e).__name__
    out['lazy'] = lazy
    try:
        out['ranks'] = o.compute_all_ranks()
    except Exception as e:
        out['ranks'] = 'EXC ' + type(e).__name__
    out['impacts'] = getattr(o, '_impacts', None)
    acc = []
    for q in parse_queries(order['queries']).conditionals.values():
        try:
            acc.append(o.conditional_acceptance(q))
        except Exception as e:
            acc.append('EXC ' + type(e).__name__)
    out['acceptance'] = acc
    if 'save_metadata_to' in order:
        # metadata handed over ASCII-escaped; saved by THIS process (whose locale may not be UTF-8)
        for k, v in order['metadata'].items():
            o.save_meta(k, v)
        try:
            o.save_metadata(order['save_metadata_to'])
            out['metadata_saved'] = True
        except Exception as e:
            out['metadata_saved'] = 'EXC %s: %s' % (type(e).__name__, str(e)[:100])
    sys.stdout.write('RESULT ' + json.dumps(out) + '\n')


if __name__ == '__main__':
    main()

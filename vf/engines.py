"""Calibration of PySAT engines: which ones can RC2 actually drive on this image?
Each engine is tried in a one-shot subprocess (an unusable engine may abort the process)."""
import json
import os
import subprocess
import sys
from concurrent.futures import ThreadPoolExecutor

ENGINES = ['g3', 'g4', 'g42', 'gc3', 'gc4', 'cd', 'cd15', 'cd19', 'cd30', 'mcb', 'mcm', 'mpl', 'mg3',
           'mc', 'm22', 'mgh', 'mep', 'cms', 'lgl', 'ks']

PROBE = r'''
import sys
from pysat.formula import WCNF
from pysat.examples.rc2 import RC2
eng = sys.argv[1]
def opt(hard, soft, extra=None):
    w = WCNF()
    for c in hard: w.append(c)
    for c in soft: w.append(c, weight=1)
    with RC2(w, solver=eng) as r:
        m = r.compute()
        if m is None: return None
        c1 = r.cost
        if extra:
            for c in extra: r.add_clause(c)
            m2 = r.compute()
            return (c1, None if m2 is None else r.cost)
        return c1
assert opt([[1, 2]], [[-1], [-2]]) == 1
assert opt([[1], [-1]], [[2]]) is None
assert opt([[1, 2], [-1, 3]], [[-1], [-2], [-3]], extra=[[1]]) == (1, 2)
assert opt([[1, 2, 3]], [[-1], [-2], [-3], [1]], extra=[[-1]]) == (1, 2)
print("OK")
'''


def usable(timeout=60):
    def one(e):
        try:
            r = subprocess.run(['/venv/bin/python', '-c', PROBE, e], capture_output=True, timeout=timeout,
                               env=dict(os.environ, INFOCF_LOGLEVEL='ERROR'))
            return e, r.returncode == 0 and b'OK' in r.stdout
        except Exception:
            return e, False
    with ThreadPoolExecutor(8) as ex:
        res = dict(ex.map(one, ENGINES))
    return [e for e in ENGINES if res[e]], [e for e in ENGINES if not res[e]]


if __name__ == '__main__':
    print(json.dumps(usable()))

"""One-shot subprocess side of C12's 'rename-internal' transformation: atom names that coincide with the
library's internal SMT symbol names poison the process-global pysmt environment, so this never runs in
a long-lived worker.  argv[1] = JSON file {sig, conds(texts), queries(texts), sig2, conds2, queries2, weakly}."""
import json
import os
import sys
import warnings

warnings.filterwarnings('ignore')
os.environ.setdefault('INFOCF_LOGLEVEL', 'ERROR')
sys.path.insert(0, os.environ.get('VERIF_REPO', '/repo'))


def text(sig, conds):
    return 'signature\n' + ','.join(sig) + '\n\nconditionals\nkb{\n' + ',\n'.join(conds) + '\n}\n'


def main():
    d = json.load(open(sys.argv[1]))
    from parser.Wrappers import parse_belief_base, parse_queries
    from inference.inference_manager import InferenceManager
    out = {}
    for tag, sig, conds, qs in (('plain', d['sig'], d['conds'], d['queries']),
                                ('renamed', d['sig2'], d['conds2'], d['queries2'])):
        for (system, p) in d['configs']:
            k = '%s:%s%s' % (tag, system, '/' + p if p else '')
            try:
                bb = parse_belief_base(text(sig, conds))
                kw = dict(weakly=d['weakly'])
                if p:
                    kw['pmaxsat_solver'] = p
                df = InferenceManager(bb, system, **kw).inference(parse_queries(','.join(qs)))
                out[k] = [bool(x) for x in df['result']]
            except Exception as e:
                out[k] = 'EXC %s: %s' % (type(e).__name__, str(e)[:120])
    sys.stdout.write('RESULT ' + json.dumps(out) + '\n')


if __name__ == '__main__':
    main()

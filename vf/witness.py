"""Witness corpus: hand-built inputs on which the definitions are delicate (cost-versus-cardinality of
correction sets, ties with several minimum sets, impacts larger than the number of conditionals,
disjunctive antecedents across layers, structured infinity layers).  They come from the textbook, from
the design round and from the demonstrations of the seeded changes; every operator check judges all of
them by the reference semantics in every run, in addition to its generated cases.  (sig, rules, queries,
extended?) as CL texts."""

WITNESSES = [
    ('birds', 'b,p,f,w', ['(f|b)', '(!f|p)', '(b|p)', '(w|b)'],
     ['(f|p)', '(!f|p)', '(w|p)', '(b|p)', '(w|p,f)', '(!b|f,!w)'], False),
    ('d4', 'b,p,f,w,u', ['(f|b)', '(w|b)', '(b|p)', '(!f|p)', '(u|!b)'],
     ['(!(b,!w)|p,((!b,!u);(b,f)))', '(w|p)', '(u|p,!b)'], False),
    ('cost-vs-cardinality-2layer', 'a,b,c,d,e,g,h', ['(!a|Top)', '(h|Top)', '(b,c,d|a)', '(e|a)', '(g|a)'],
     ['((b,c,d,!e,!g);(!b,!c,!d)|a,((b,c,d,!e,!g);(!b,!c,!d,e,g);(!b,c,d,e,g,!h)))', '(!a|Top)', '(e|a)', '(h|a)',
      '(b|a,!e)', '(!h|a,!b)', '(e,g|a,!b,!c,!d)'], False),
    ('cost-vs-cardinality-1layer', 'a,b,c,d,e,g', ['(b,c,d|a)', '(e|a)', '(g|a)'],
     ['(e;b|a,((!b,!c,!d,e,g);(b,c,d,!e,!g);(!b,!c,!d,!e,g)))', '(e;b|a,((b,c,d,!e,!g);(!b,!c,!d,!e,g)))',
      '(e|a,((!b,!c,!d,e,g);(!b,!c,!d,!e,g)))', '(e|a,!g)'], False),
    ('superset-before-subset', 'a,b,c,d,e', ['(b,c,d|a)', '(b,c|!a)', '(d|!a)', '((b,c,d);(!b,!c,!d)|a)', '(e|!a)'],
     ['(a;e|!b,(a;(!c,!d)))', '(b,c,d|a)', '(e|!a)', '(!e|!a)'], False),
    ('two-rule-multi-clause', 'a,b,c,d,x', ['(b,c,d|a)', '(!x|a)'],
     ['((c,d);(!c,!d)|a,!b,(x;(!c,!d)))', '(b|a)', '(!x|a,!b)'], False),
    ('three-way-cost', 'a,b,c,d,e,f,x,y', ['(b,c,d|a)', '(e|x)', '(f|x)', '(e|y)', '(f|y)'],
     ['(!y|!b,!c,!d,!e,!f,((a,!x,!y);(!a,x,!y);(!a,!x,y)))', '(y|!b,!c,!d,!e,!f,((a,!x,!y);(!a,x,!y);(!a,!x,y)))',
      '(!a|!b,!c,!d,!e,!f,((a,!x,!y);(!a,!x,y)))'], False),
    ('minimum-set-at-higher-cost', 'x,q,b,c,d,e',
     ['(!x|Top)', '((!c;b)|Top)', '((!b;!q)|x)', '((!c;!d;!e;b;!q)|x)', '(((c,d,e);b;!q)|x)', '((!c;d;b;!q)|x)',
      '((!d;e;b;!q)|x)', '((!e;c;b;!q)|x)'],
     ['(b|x,q)', '(!b|x,q)', '(c|x,q,!b)', '(!x|q)'], False),
    ('disjunctive-antecedent', 'x,y,z,u,v', ['(x|Top)', '(y|Top)', '(z|(!x,!y,!v);(x,y,v))', '(u,!x|v)'],
     ['(!x|(!x,!y,!v,z);(x,y,v,!z))', '(z|v)', '(u|v)', '(x|v)'], False),
    ('exponential-impacts', 'a,b,c,d', ['(a|Top)', '(b,!a|c)', '(!a,c,!b|d)'],
     ['(d|Top)', '(!c|d)', '(!d|Top)', '(a|c)'], False),
    ('penguin-defaults-tie', 'p,b,f,g,h', ['(f|b)', '(g|Top)', '(h|Top)', '(b|p)', '(!f|p)'],
     ['(!b;(g,h)|p,((b,f);(!b,!f,!g,!h)))', '(!f|p)', '(f|p)', '(g|p)', '(g,h|p,b,f)', '(b|p,g)'], False),
    ('infinity-layer-multi-clause', 't,x,y,z,w,u', ['(x,y,z|t)', '(w|t)', '(Bottom|u)'],
     ['(((!y,!z,w);(y,z)),!u|(t,!x,((!y,!z,w);!w),!u);(t,x,y,z,w,u))', '(w|t)', '(x|t,u)', '(!u|Top)'], True),
    ('infinity-layer-ties', 'p,q,a1,a2,a3,a4,g1,g2,u',
     ['(!p|Top)', '(g1|Top)', '(g2|Top)', '(a1|p)', '(a2|p)', '(a3|p)', '(a4|p)', '(Bottom|u)'],
     ['(q|(p,q,a1,a2,a3,!a4,!g1,g2,!u);(p,!q,!a1,a2,a3,a4,!g1,!g2,!u);(p,!q,a1,!a2,!a3,a4,g1,g2,!u);(p,!q,a1,a2,a3,a4,g1,g2,u))',
      '(a1|p)', '(!u|p)'], True),
    ('no-finite-layer', 'a,b,c', ['(!b|b)'], ['(a|c)', '(a|b)', '(!b|Top)', '(c|a,!b)'], True),
    ('z3-infinity-layer', 'a,b', ['(b|a)', '(!a|(!a,b))', '(!a|a)', '(b|!a)'],
     ['((!!a;b)|((a,!b);!b))', '(b|Top)', '(!a|Top)'], True),
    ('unfalsifiable-rule', 'a,b', ['(b|a)', '(a|a)'], ['(!b|a)', '(a|b)', '(b|a)'], False),
    ('partial-model-evaluation', 'a,b,c', ['(a|a)', '(c|(!(b,a);(c;!!a)))'],
     ['(c|(!(b,a);(c;!!a)))', '(c|Top)', '(a|b)'], False),
    ('fact-constant', 'x,y', ['(x|Top)'], ['(x|Top)', '(Bottom|y)', '((x,!x)|y)', '(x|y)'], False),
]


def text(sig, rules):
    return 'signature\n' + sig + '\n\nconditionals\nkb{\n' + ',\n'.join(rules) + '\n}\n'


def asts(i):
    """(name, sig, conds, queries, extended_only) of witness i as formula ASTs (read through the repository's
    parser, whose meaning is C10's matter, and back structurally)"""
    from parser.Wrappers import parse_belief_base, parse_queries
    from . import fml
    name, sigt, rules, qtexts, extended_only = WITNESSES[i]
    bb0 = parse_belief_base(text(sigt, rules))
    sig = list(bb0.signature)
    conds = [(fml.from_pysmt(c.consequence), fml.from_pysmt(c.antecedence)) for c in bb0.conditionals.values()]
    qs = [(fml.from_pysmt(c.consequence), fml.from_pysmt(c.antecedence))
          for c in parse_queries(','.join(qtexts)).conditionals.values()]
    return name, sig, conds, qs, extended_only

"""M0: formula AST, truth tables, printers, builders.

A formula is a nested tuple:
  ('var', name) | ('top',) | ('bot',) | ('not', f) | ('and', f, g) | ('or', f, g)
Nothing here imports the repository; `to_pysmt` imports pysmt lazily.

Worlds over a signature sig = [s0, s1, ...] are integers 0 .. 2^n-1; atom s_i is true in
world w iff bit (n-1-i) of w is set, so that format(w, '0{n}b') is the bit-string the
library uses for worlds (first signature atom = leftmost character).
A truth table is a Python int used as a bit set of worlds.
"""
import itertools
import random

TOP = ('top',)
BOT = ('bot',)


def V(n):
    return ('var', n)


def Not(f):
    return ('not', f)


def And(f, g):
    return ('and', f, g)


def Or(f, g):
    return ('or', f, g)


def atoms(f, acc=None):
    acc = set() if acc is None else acc
    if f[0] == 'var':
        acc.add(f[1])
    else:
        for x in f[1:]:
            atoms(x, acc)
    return acc


def ev(f, w):
    """w: dict name -> bool"""
    t = f[0]
    if t == 'var':
        return w[f[1]]
    if t == 'top':
        return True
    if t == 'bot':
        return False
    if t == 'not':
        return not ev(f[1], w)
    if t == 'and':
        return ev(f[1], w) and ev(f[2], w)
    if t == 'or':
        return ev(f[1], w) or ev(f[2], w)
    raise ValueError(t)


def full(n):
    return (1 << (1 << n)) - 1


_ATOM_TT = {}


def atom_tt(i, n):
    """truth table of the i-th signature atom over n atoms"""
    k = (i, n)
    r = _ATOM_TT.get(k)
    if r is None:
        r = 0
        bit = n - 1 - i
        for w in range(1 << n):
            if (w >> bit) & 1:
                r |= 1 << w
        _ATOM_TT[k] = r
    return r


def tt(f, sig):
    """truth table of f over signature list sig (atoms of f must be in sig)"""
    n = len(sig)
    F = full(n)
    pos = {s: i for i, s in enumerate(sig)}

    def go(f):
        t = f[0]
        if t == 'var':
            return atom_tt(pos[f[1]], n)
        if t == 'top':
            return F
        if t == 'bot':
            return 0
        if t == 'not':
            return F & ~go(f[1])
        if t == 'and':
            return go(f[1]) & go(f[2])
        if t == 'or':
            return go(f[1]) | go(f[2])
        raise ValueError(t)
    return go(f)


def world_dict(w, sig):
    n = len(sig)
    return {s: bool((w >> (n - 1 - i)) & 1) for i, s in enumerate(sig)}


def world_str(w, sig):
    return format(w, '0%db' % len(sig)) if sig else ''


def bits(mask):
    """iterate the worlds in a truth table"""
    w = 0
    while mask:
        if mask & 1:
            yield w
        mask >>= 1
        w += 1


def lowest(mask):
    return (mask & -mask).bit_length() - 1


# ---------------------------------------------------------------- printers

def to_text(f, style='full', rng=None):
    """CL text.  style: 'full' = every binary node parenthesised,
    'min' = minimal parentheses by precedence (! > , > ;), 'noisy' = min + random
    redundant parentheses and whitespace (needs rng)."""
    if style == 'full':
        return _text_full(f)
    return _text_min(f, 0, rng if style == 'noisy' else None)


def _text_full(f):
    t = f[0]
    if t == 'var':
        return f[1]
    if t == 'top':
        return 'Top'
    if t == 'bot':
        return 'Bottom'
    if t == 'not':
        return '!' + _text_full(f[1])
    s = (',' if t == 'and' else ';').join(_text_full(x) for x in f[1:])
    return '(' + s + ')'


_PREC = {'or': 1, 'and': 2, 'not': 3, 'var': 4, 'top': 4, 'bot': 4}


def _text_min(f, ctx, rng):
    """ctx = precedence required by the context; parenthesise when own precedence is lower.
    Binary operators are printed left-nested without parentheses and right-nested with
    parentheses when the operator is the same (meaning is the same either way, but this keeps
    the tree shape recoverable)."""
    t = f[0]
    sp = (lambda: ' ' * rng.randint(0, 2)) if rng else (lambda: '')
    if t == 'var':
        s = f[1]
    elif t == 'top':
        s = 'Top'
    elif t == 'bot':
        s = 'Bottom'
    elif t == 'not':
        s = '!' + sp() + _text_min(f[1], 3, rng)
    else:
        p = _PREC[t]
        op = ',' if t == 'and' else ';'
        s = _text_min(f[1], p, rng) + sp() + op + sp() + _text_min(f[2], p + 1, rng)
    if _PREC[t] < ctx or (rng and rng.random() < 0.15):
        s = '(' + sp() + s + sp() + ')'
    return s


def cond_text(B, A, style='full', rng=None):
    return '(' + to_text(B, style, rng) + '|' + to_text(A, style, rng) + ')'


def base_text(sig, conds, name='kb', style='full', rng=None):
    return ('signature\n' + ','.join(sig) + '\n\nconditionals\n' + name + '{\n'
            + ',\n'.join(cond_text(B, A, style, rng) for (B, A) in conds) + '\n}\n')


def to_pysmt(f):
    from pysmt.shortcuts import Symbol, TRUE, FALSE
    from pysmt.shortcuts import Not as PNot, And as PAnd, Or as POr
    from pysmt.typing import BOOL
    t = f[0]
    if t == 'var':
        return Symbol(f[1], BOOL)
    if t == 'top':
        return TRUE()
    if t == 'bot':
        return FALSE()
    if t == 'not':
        return PNot(to_pysmt(f[1]))
    if t == 'and':
        return PAnd(to_pysmt(f[1]), to_pysmt(f[2]))
    if t == 'or':
        return POr(to_pysmt(f[1]), to_pysmt(f[2]))
    raise ValueError(t)


def from_pysmt(node):
    """pure structural read-back of a pysmt FNode into an AST (no solver)"""
    if node.is_symbol():
        return V(node.symbol_name())
    if node.is_true():
        return TOP
    if node.is_false():
        return BOT
    if node.is_not():
        return Not(from_pysmt(node.arg(0)))
    if node.is_and() or node.is_or():
        args = [from_pysmt(a) for a in node.args()]
        op = 'and' if node.is_and() else 'or'
        if not args:
            return TOP if op == 'and' else BOT
        r = args[0]
        for a in args[1:]:
            r = (op, r, a)
        return r
    if node.is_implies():
        return Or(Not(from_pysmt(node.arg(0))), from_pysmt(node.arg(1)))
    if node.is_iff():
        a, b = from_pysmt(node.arg(0)), from_pysmt(node.arg(1))
        return Or(And(a, b), And(Not(a), Not(b)))
    raise ValueError('unsupported pysmt node %r' % (node,))


def rename(f, m):
    t = f[0]
    if t == 'var':
        return V(m.get(f[1], f[1]))
    if t in ('top', 'bot'):
        return f
    return (t,) + tuple(rename(x, m) for x in f[1:])


def size(f):
    return 1 + sum(size(x) for x in f[1:] if isinstance(x, tuple))


def depth(f):
    if f[0] in ('var', 'top', 'bot'):
        return 0
    return 1 + max(depth(x) for x in f[1:])


def is_literalish(f):
    return f[0] in ('var', 'top', 'bot') or (f[0] == 'not' and f[1][0] == 'var')


# ---------------------------------------------------------------- random formulas

def rand_formula(rng, sig, depth, p_const=0.05, p_leaf=0.35, p_not=0.2):
    if depth == 0 or rng.random() < p_leaf:
        if rng.random() < p_const:
            return TOP if rng.random() < 0.5 else BOT
        v = V(rng.choice(sig))
        return Not(v) if rng.random() < 0.4 else v
    k = rng.random()
    if k < p_not:
        return Not(rand_formula(rng, sig, depth - 1, p_const, p_leaf, p_not))
    op = 'and' if k < (1 + p_not) / 2 else 'or'
    return (op, rand_formula(rng, sig, depth - 1, p_const, p_leaf, p_not),
            rand_formula(rng, sig, depth - 1, p_const, p_leaf, p_not))


def equivalent_rewrite(rng, f, sig):
    """a syntactically different formula with the same truth table"""
    k = rng.randrange(6)
    if k == 0:
        return Not(Not(f))
    if k == 1 and f[0] in ('and', 'or'):
        return (f[0], f[2], f[1])
    if k == 2 and f[0] == 'and':
        return Not(Or(Not(f[1]), Not(f[2])))
    if k == 2 and f[0] == 'or':
        return Not(And(Not(f[1]), Not(f[2])))
    if k == 3:
        y = V(rng.choice(sig))
        return And(f, Or(y, Not(y)))
    if k == 4:
        y = V(rng.choice(sig))
        return Or(f, And(y, Not(y)))
    return And(f, f) if rng.random() < 0.5 else Or(f, f)

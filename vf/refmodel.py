"""Reference models M1-M3, M6: tolerance partitions, feasible worlds, the operators'
definitions, ranking-function algebra.  Pure Python over truth tables (vf.fml);
imports nothing from the repository and no solver.
"""
from . import fml


class Base:
    """A belief base as data: sig (list of atom names), conds (list of (B, A) ASTs).
    Worlds are enumerated over `sig` extended by `extra_atoms` (atoms of queries that are
    outside the signature)."""

    def __init__(self, sig, conds, extra_atoms=()):
        self.sig = list(sig)
        self.conds = list(conds)
        self.wsig = self.sig + [a for a in extra_atoms if a not in self.sig]
        used = set()
        for (B, A) in self.conds:
            fml.atoms(B, used)
            fml.atoms(A, used)
        for a in sorted(used):
            if a not in self.wsig:
                self.wsig.append(a)
        self.n = len(self.wsig)
        self.FULL = fml.full(self.n)
        self.ver = []
        self.fal = []
        for (B, A) in self.conds:
            a = fml.tt(A, self.wsig)
            b = fml.tt(B, self.wsig)
            self.ver.append(a & b)
            self.fal.append(a & ~b & self.FULL)

    def with_atoms(self, names):
        need = [a for a in names if a not in self.wsig]
        if not need:
            return self
        return Base(self.sig, self.conds, extra_atoms=self.wsig[len(self.sig):] + need)

    def q(self, B, A):
        """(ver, fal) truth tables of a query"""
        a = fml.tt(A, self.wsig)
        b = fml.tt(B, self.wsig)
        return a & b, a & ~b & self.FULL


def partition(ver, fal, idxs, feasible, extended=False):
    """M1.  Tolerance partition of the conditionals `idxs` (indices into ver/fal) over the
    worlds in the bit set `feasible`.
    strict:   list of layers, or None if inconsistent.
    extended: (layers, infinity_layer) or None if rejected (every world falsifies one of the
              never-tolerated conditionals)."""
    rem = list(idxs)
    part = []
    while rem:
        bad = 0
        for c in rem:
            bad |= fal[c]
        ok = feasible & ~bad
        tol = [c for c in rem if ver[c] & ok]
        if not tol:
            if not extended:
                return None
            if not ok:
                return None
            return part, rem
        part.append(tol)
        ts = set(tol)
        rem = [c for c in rem if c not in ts]
    return (part, []) if extended else part


class Setup:
    """M2: what every operator shares for a base in a mode."""

    def __init__(self, base, extended=False):
        self.base = base
        self.extended = extended
        self.ok = True
        idxs = list(range(len(base.conds)))
        if not idxs:
            self.ok = False
            self.reason = 'empty'
            return
        if extended:
            r = partition(base.ver, base.fal, idxs, base.FULL, True)
            if r is None:
                self.ok = False
                self.reason = 'inconsistent'
                return
            self.part, self.inf = r
        else:
            r = partition(base.ver, base.fal, idxs, base.FULL, False)
            if r is None:
                self.ok = False
                self.reason = 'inconsistent'
                return
            self.part, self.inf = r, []
        bad = 0
        for c in self.inf:
            bad |= base.fal[c]
        self.feas = base.FULL & ~bad
        # per-layer falsification masks
        self.layer_fal = []
        for layer in self.part:
            m = 0
            for c in layer:
                m |= base.fal[c]
            self.layer_fal.append(m)

    def zrank(self, w):
        r = 0
        for li, m in enumerate(self.layer_fal):
            if (m >> w) & 1:
                r = li + 1
        return r

    def zrank_mask(self, mask):
        """least z-rank among the worlds of mask (None if empty)"""
        if not mask:
            return None
        return min(self.zrank(w) for w in fml.bits(mask))

    def fal_sets(self, w):
        """tuple over layers (top first) of frozenset of conditionals falsified by w"""
        b = self.base
        return tuple(frozenset(c for c in layer if (b.fal[c] >> w) & 1)
                     for layer in reversed(self.part))

    def lex_vec(self, w):
        b = self.base
        return tuple(sum(1 for c in layer if (b.fal[c] >> w) & 1)
                     for layer in reversed(self.part))


def w_less(s1, s2):
    """s1, s2 = fal_sets tuples, top layer first"""
    for a, b in zip(s1, s2):
        if a == b:
            continue
        return a < b
    return False


def trivial(setup, qv, qf):
    """M2 short-cuts: returns True/False if decided, else None.  qv/qf are restricted to
    feasible worlds by the caller."""
    if not qf:
        return True
    if not qv:
        return False
    return None


def answer(setup, system, qver, qfal):
    """M3.  qver/qfal: truth tables of A&B and A&!B over setup.base.wsig."""
    assert setup.ok
    V = qver & setup.feas
    F = qfal & setup.feas
    t = trivial(setup, V, F)
    if t is not None:
        return t
    base = setup.base
    if system == 'p-entailment':
        fin = [c for layer in setup.part for c in layer]
        n = len(base.conds)
        ver = base.ver + [qfal]      # (not B | A): verified by A&!B
        fal = base.fal + [qver]      #              falsified by A&B
        r = partition(ver, fal, fin + [n], setup.feas, False)
        return r is None
    if system == 'system-z':
        return setup.zrank_mask(V) < setup.zrank_mask(F)
    if system == 'system-w':
        vs = {setup.fal_sets(w) for w in fml.bits(V)}
        fs = {setup.fal_sets(w) for w in fml.bits(F)}
        return all(any(w_less(v, f) for v in vs) for f in fs)
    if system == 'lex_inf':
        return (min(setup.lex_vec(w) for w in fml.bits(V))
                < min(setup.lex_vec(w) for w in fml.bits(F)))
    raise ValueError(system)


# ---------------------------------------------------------------- M6 ranking algebra

INF = None


def formula_rank(ranks, mask):
    """ranks: dict world-int -> int; mask: truth table.  None if no model."""
    best = None
    for w in fml.bits(mask):
        r = ranks[w]
        if best is None or r < best:
            best = r
    return best


def accepts(ranks, qver, qfal):
    v = formula_rank(ranks, qver)
    f = formula_rank(ranks, qfal)
    if v is None:
        return False
    return f is None or v < f


def marginalize(ranks, sig, remove):
    """ranks: dict world-string -> rank over sig; returns (new_sig, dict world-string -> rank)"""
    keep = [i for i, s in enumerate(sig) if s not in remove]
    out = {}
    for w, r in ranks.items():
        k = ''.join(w[i] for i in keep)
        if k not in out or r < out[k]:
            out[k] = r
    return [sig[i] for i in keep], out

"""Adapter to the code under test.  The only module (besides instrument.py and props/*) that
imports the repository.  Always executes /repo's current working tree."""
import os
import sys
import warnings

os.environ.setdefault('INFOCF_LOGLEVEL', 'ERROR')
os.environ.setdefault('INFOCF_VERIF', '1')
sys.dont_write_bytecode = True
REPO = os.environ.get('VERIF_REPO', '/repo')
if REPO in sys.path:
    sys.path.remove(REPO)
sys.path.insert(0, REPO)
warnings.filterwarnings('ignore')

from . import fml  # noqa: E402

from inference.belief_base import BeliefBase  # noqa: E402
from inference.conditional import Conditional  # noqa: E402
from inference.queries import Queries  # noqa: E402
from inference.inference_manager import InferenceManager  # noqa: E402
import inference  # noqa: E402

assert os.path.realpath(os.path.dirname(inference.__file__)).startswith(os.path.realpath(REPO)), \
    'repository not imported from %s' % REPO

# (system, pmaxsat_solver) configurations
CONFIGS = [('p-entailment', ''), ('system-z', ''), ('system-w', 'rc2'), ('system-w', 'z3'),
           ('lex_inf', 'rc2'), ('lex_inf', 'z3'), ('c-inference', 'rc2')]


def cfg_name(system, p):
    return system + ('/' + p if p else '')


def mk_cond(B, A, style='full', rng=None, text=None):
    c = Conditional(fml.to_pysmt(B), fml.to_pysmt(A),
                    text if text is not None else fml.cond_text(B, A, style, rng))
    return c


def mk_bb(sig, conds, keys=None, name='gen', via='api', style='full', rng=None):
    """via='api': programmatic BeliefBase; via='parser': through parse_belief_base"""
    if via == 'parser':
        from parser.Wrappers import parse_belief_base
        bb = parse_belief_base(fml.base_text(sig, conds, name, style, rng))
        if keys is not None and list(keys) != list(range(1, len(conds) + 1)):
            bb = BeliefBase(bb.signature, dict(zip(keys, bb.conditionals.values())), bb.name)
        return bb
    keys = list(keys) if keys is not None else list(range(1, len(conds) + 1))
    d = {}
    for k, (B, A) in zip(keys, conds):
        c = mk_cond(B, A, style, rng)
        c.index = k
        d[k] = c
    return BeliefBase(list(sig), d, name)


def mk_queries(qs, keys=None, texts=None):
    keys = list(keys) if keys is not None else list(range(1, len(qs) + 1))
    d = {}
    for n, (k, (B, A)) in enumerate(zip(keys, qs)):
        d[k] = mk_cond(B, A, text=(texts[n] if texts else None))
    return Queries(d)


def ask(bb, system, p, queries, weakly=False, **kw):
    """returns the DataFrame; exceptions propagate"""
    args = dict(weakly=weakly)
    if p:
        args['pmaxsat_solver'] = p
    m = InferenceManager(bb, system, **args)
    return m.inference(queries, **kw)


def results(df):
    return [bool(x) for x in df['result']]


import contextlib  # noqa: E402
import logging  # noqa: E402


@contextlib.contextmanager
def debug_logging(on=True):
    """the library guards extra work with logger.isEnabledFor(DEBUG); with the root level at DEBUG those
    branches run (records are still dropped by the console handler, whose level stays at ERROR)"""
    root = logging.getLogger()
    old = root.level
    if on:
        root.setLevel(logging.DEBUG)
    try:
        yield
    finally:
        root.setLevel(old)

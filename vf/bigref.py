"""M10: reference semantics for bases too large to enumerate worlds (dozens to ~120 atoms).

The definitions of refmodel.py (tolerance partition, feasible worlds, Z-rank of a formula, p-entailment,
lexicographic count vectors) are evaluated with satisfiability questions instead of world enumeration.
z3 is used as a *certificate producer* in an own z3.Context (nothing shared with the library's symbols):
every `sat` answer is re-checked by evaluating all asserted formulas / counting all cardinality members under
the returned world with the pure-Python evaluator fml.ev; only `unsat` answers are trusted (TRUSTED base).
No Tseitin translation, no MaxSAT, no pysmt, no Optimize: the formulas are asserted as they are and counts
are bounded by z3.AtMost, so the encoding shares nothing with the code under test.  Imports nothing from the
repository.
"""
import z3

from . import fml
from .fml import Not, And, Or


class OracleError(Exception):
    """the oracle could not certify its own answer (never a verdict about the library)"""


def material(B, A):
    return Or(Not(A), B)


class BigBase:
    def __init__(self, sig, conds, extra_atoms=()):
        self.ctx = z3.Context()
        self.names = list(sig) + [a for a in extra_atoms if a not in sig]
        self.zv = {n: z3.Bool('u%d' % i, self.ctx) for i, n in enumerate(self.names)}
        self.conds = list(conds)
        self.ver = [And(A, B) for (B, A) in conds]
        self.fal = [And(A, Not(B)) for (B, A) in conds]
        self.mat = [material(B, A) for (B, A) in conds]
        self._zc = {}
        self.sat_calls = 0
        self.sat_certified = 0
        self.unsat_trusted = 0

    # ------------------------------------------------------------------ z3 plumbing
    def z(self, f):
        k = id(f)
        hit = self._zc.get(k)
        if hit is not None and hit[0] is f:
            return hit[1]
        t = f[0]
        if t == 'var':
            r = self.zv[f[1]]
        elif t == 'top':
            r = z3.BoolVal(True, self.ctx)
        elif t == 'bot':
            r = z3.BoolVal(False, self.ctx)
        elif t == 'not':
            r = z3.Not(self.z(f[1]), self.ctx)
        elif t == 'and':
            r = z3.And(self.z(f[1]), self.z(f[2]), self.ctx)
        elif t == 'or':
            r = z3.Or(self.z(f[1]), self.z(f[2]), self.ctx)
        else:
            raise ValueError(t)
        self._zc[k] = (f, r)
        return r

    def solve(self, hard, cards=()):
        """hard: formulas (AST) that must hold; cards: [(formulas, k)] = at most k of the formulas hold.
        Returns a world (dict name -> bool) or None.  A returned world is certified in pure Python."""
        s = z3.Solver(ctx=self.ctx)
        for f in hard:
            s.add(self.z(f))
        for fs, k in cards:
            if fs:
                s.add(z3.AtMost(*([self.z(f) for f in fs] + [k])))
        self.sat_calls += 1
        r = s.check()
        if r == z3.unsat:
            self.unsat_trusted += 1
            return None
        if r != z3.sat:
            raise OracleError('z3 answered %s' % r)
        m = s.model()
        w = {n: bool(z3.is_true(m.eval(v, model_completion=True))) for n, v in self.zv.items()}
        for f in hard:
            if not fml.ev(f, w):
                raise OracleError('model does not satisfy an asserted formula')
        for fs, k in cards:
            if sum(1 for f in fs if fml.ev(f, w)) > k:
                raise OracleError('model exceeds a cardinality bound')
        self.sat_certified += 1
        return w

    # ------------------------------------------------------------------ M1 on large bases
    def partition(self, idxs, hard=(), extra=None):
        """tolerance layers of the conditionals idxs (positions; `extra` = dict pos -> (ver, fal, mat) for
        conditionals that are not part of the base) over the worlds satisfying `hard`.
        Returns (layers, remainder)."""
        def get(c):
            if extra and c in extra:
                return extra[c]
            return self.ver[c], self.fal[c], self.mat[c]
        rem = list(idxs)
        layers = []
        while rem:
            mats = list(hard) + [get(c)[2] for c in rem]
            found = set()
            for c in rem:
                if c in found:
                    continue
                w = self.solve(mats + [get(c)[0]])
                if w is not None:
                    for c2 in rem:
                        if c2 not in found and fml.ev(get(c2)[0], w):
                            found.add(c2)
            if not found:
                break
            layers.append([c for c in rem if c in found])
            rem = [c for c in rem if c not in found]
        return layers, rem


class BigSetup:
    """what refmodel.Setup is for small bases"""

    def __init__(self, base, extended=False):
        self.base = base
        self.extended = extended
        self.ok = True
        self.reason = None
        n = len(base.conds)
        if n == 0:
            self.ok, self.reason = False, 'empty'
            return
        layers, rem = base.partition(list(range(n)))
        if rem and not extended:
            self.ok, self.reason = False, 'inconsistent'
            return
        self.part, self.inf = layers, rem
        self.hard = [base.mat[c] for c in rem]          # feasible worlds falsify no infinity-layer rule
        if rem and base.solve(self.hard) is None:
            self.ok, self.reason = False, 'inconsistent'
            return

    def feasible(self, f):
        return self.base.solve(self.hard + [f]) is not None

    def zrank_world(self, w):
        """w: dict name -> bool over the base's names; None for an infeasible world"""
        b = self.base
        if any(fml.ev(b.fal[c], w) for c in self.inf):
            return None
        r = 0
        for li, layer in enumerate(self.part):
            if any(fml.ev(b.fal[c], w) for c in layer):
                r = li + 1
        return r

    def zrank(self, f):
        """least Z-rank of a feasible model of f; None if there is none"""
        b = self.base
        L = len(self.part)
        for i in range(L + 1):
            mats = [b.mat[c] for layer in self.part[i:] for c in layer]
            if b.solve(self.hard + [f] + mats) is not None:
                return i
        return None

    def lex_vector(self, f):
        """lexicographically least vector of per-layer falsification counts (top layer first) over the feasible
        models of f; None if f has no feasible model"""
        b = self.base
        if b.solve(self.hard + [f]) is None:
            return None
        cards = []
        vec = []
        for layer in reversed(self.part):
            fs = [b.fal[c] for c in layer]
            for k in range(len(layer) + 1):
                if b.solve(self.hard + [f], cards + [(fs, k)]) is not None:
                    vec.append(k)
                    cards.append((fs, k))
                    break
            else:
                raise OracleError('no count found for a layer')
        return tuple(vec)

    # ---- System W: w <_w w' iff, top layer first, the falsified sets agree until a layer where w's set is a
    # proper subset of w' 's.  One of the two worlds is concrete, the other one is the solver's.
    def _sets(self, w):
        b = self.base
        return [set(c for c in layer if fml.ev(b.fal[c], w)) for layer in reversed(self.part)]

    def _chain(self, sets, strict_of):
        """formula over the free world x: nested  strict_0 | (eq_0 & (strict_1 | (eq_1 & ...)))"""
        b = self.base
        layers = list(reversed(self.part))
        out = fml.BOT
        for layer, S in reversed(list(zip(layers, sets))):
            eq = fml.TOP
            for c in layer:
                eq = And(eq, b.fal[c] if c in S else Not(b.fal[c]))
            out = Or(strict_of(layer, S), And(eq, out))
        return out

    def less_than_world(self, f):
        """x <_w f for the concrete world f"""
        b = self.base

        def strict(layer, S):
            inside = fml.TOP
            for c in layer:
                if c not in S:
                    inside = And(inside, Not(b.fal[c]))
            some = fml.BOT
            for c in S:
                some = Or(some, Not(b.fal[c]))
            return And(inside, some)
        return self._chain(self._sets(f), strict)

    def greater_than_world(self, v):
        """v <_w x for the concrete world v"""
        b = self.base

        def strict(layer, S):
            allin = fml.TOP
            for c in S:
                allin = And(allin, b.fal[c])
            more = fml.BOT
            for c in layer:
                if c not in S:
                    more = Or(more, b.fal[c])
            return And(allin, more)
        return self._chain(self._sets(v), strict)

    def system_w(self, V, F, cap=80):
        """True / False / None (undecided within `cap` refinement rounds).  Every falsifying world must be
        dominated by a verifying one: counterexample-guided - take a falsifying world not yet known to be
        dominated, look for a verifying world below it (none => False), then exclude every world that
        verifying world dominates."""
        b = self.base
        blocks = []
        for _ in range(cap):
            f = b.solve(self.hard + [F] + blocks)
            if f is None:
                return True
            v = b.solve(self.hard + [V, self.less_than_world(f)])
            if v is None:
                return False
            for _i in range(4):          # a lower verifying world dominates more
                v2 = b.solve(self.hard + [V, self.less_than_world(v)])
                if v2 is None:
                    break
                v = v2
            blocks.append(Not(self.greater_than_world(v)))
        return None

    def answer(self, system, B, A):
        """True / False, or None where this oracle gives no exact answer (c-inference: see bounds)"""
        b = self.base
        V, F = And(A, B), And(A, Not(B))
        if not self.feasible(F):
            return True
        if not self.feasible(V):
            return False
        if system == 'system-z':
            return self.zrank(V) < self.zrank(F)
        if system == 'p-entailment':
            fin = [c for layer in self.part for c in layer]
            n = len(b.conds)
            extra = {n: (F, V, material(Not(B), A))}
            layers, rem = b.partition(fin + [n], hard=self.hard, extra=extra)
            return bool(rem)
        if system == 'lex_inf':
            return self.lex_vector(V) < self.lex_vector(F)
        if system == 'system-w':
            return self.system_w(V, F)
        return None

    def bounds(self, system, B, A):
        """(lower, upper): answers that the definitions force through the inclusions p <= Z <= W <= lex and
        p <= c <= W.  lower True => the operator must say True; upper False => it must say False."""
        if system == 'system-w':
            a = self.answer('system-w', B, A)
            if a is not None:
                return a, a
            return self.answer('system-z', B, A), self.answer('lex_inf', B, A)
        if system == 'c-inference':
            return self.answer('p-entailment', B, A), self.answer('lex_inf', B, A)
        a = self.answer(system, B, A)
        return a, a

"""C13: answers are independent of batching, history and parallel evaluation; one row per query in order with its own key; no worker left behind (DESIGN.md section 7, C13)."""
from .. import fml, gen, refmodel as rm
from .. import impl, instrument
from .opcommon import h, base_desc

ID = 'C13'
LEVEL = 'exploration'
RULE = ('history monitor: a case is a script of 2-4 inference() calls on ONE manager (overlapping, repeated and '
        'permuted batches, duplicate query texts, arbitrary integer query keys, sequential and parallel '
        'evaluation alternating) for one operator/back-end/mode. Reference = answer of a fresh manager asked '
        'that single query (real code). Per returned table: one row per submitted query, in order, row i carries '
        'key i / text i / the reference answer; no exception. Parallel calls run with injected per-worker delays '
        '(completion orders are recorded; distinct permutations are the schedule coverage), optionally one hung '
        'worker with a virtualised join; a process monitor on multiprocessing start/join/terminate checks that '
        'no process started during the call is still running afterwards. Non-trivial = history with >= 2 calls '
        'or a parallel call; distinct by hash(base, script, configuration).')
ASSUMPTIONS = ['workers share no memory (forked copies): completion order is the only schedule dimension',
               'a hung worker is simulated by a sleeping worker whose join(timeout) returns at once']
TRUSTED = []
FLOOR = {'quick': 60, 'thorough': 600}
BUDGET = {'quick': 110, 'thorough': 1500}
N = {'quick': 420, 'thorough': 6000}
REQUIRED = {'quick': {'parallel_calls': 60, 'completion_orders': 10, 'hung_worker_calls': 10,
                      'second_or_later_calls': 80},
            'thorough': {'parallel_calls': 600, 'completion_orders': 50, 'hung_worker_calls': 100,
                         'second_or_later_calls': 2000}}
RECYCLE = 60


def cases(tier, seed):
    out = []
    for i in range(N[tier]):
        cfg = impl.CONFIGS[i % len(impl.CONFIGS)]
        out.append({'prop': ID, 'seed': seed, 'idx': i, 'system': cfg[0], 'p': cfg[1]})
    return out


def run_case(case):
    rng = gen.rng_for(case['seed'], ID, case['idx'])
    system, p = case['system'], case['p']
    cname = impl.cfg_name(system, p)
    res = {'evals': 0, 'nontrivial': [], 'violations': [], 'inconclusive': [], 'counters': {}}
    cnt = res['counters']

    def bump(k, sub=None, n=1):
        if sub is None:
            cnt[k] = cnt.get(k, 0) + n
        else:
            d = cnt.setdefault(k, {})
            d[sub] = d.get(sub, 0) + n
    weakly = system != 'c-inference' and rng.random() < 0.25
    kw = dict(nat=rng.randint(2, 4), ncond=rng.randint(1, 5)) if system == 'c-inference' else {}
    sig, conds, fam = gen.gen_base(rng, 'weak_or_strong' if weakly else 'strong',
                                   family='rand' if kw else None, **kw)
    mode = 'extended' if weakly else 'strict'
    pool = gen.gen_queries(rng, sig, conds, 7, extra_atom_p=0.0)
    twins = rng.random() < 0.5
    if twins:
        # differ only below nesting depth 6; prefer a pair whose (reference) answers differ, so that a
        # confusion between the two is observable
        from .. import cref
        rb = rm.Base(sig, conds)
        rs = rm.Setup(rb, weakly)
        cs = cref.CSys(rb) if system == 'c-inference' else None
        for _ in range(8):
            t1, t2 = gen.deep_twins(rng, sig, conds)
            a1 = cs.c_inference(*rb.q(*t1))[0] if cs else rm.answer(rs, system, *rb.q(*t1))
            a2 = cs.c_inference(*rb.q(*t2))[0] if cs else rm.answer(rs, system, *rb.q(*t2))
            if a1 != a2:
                bump('deep_twin_pairs_with_different_answers')
                break
        pool[5], pool[6] = t1, t2
        bump('histories_with_deep_twin_queries')
    bdesc = base_desc(sig, conds)
    texts = [fml.cond_text(*q) for q in pool]

    def viol(sig_, **detail):
        detail['base'] = bdesc
        res['violations'].append({'sig': '%s:%s:%s' % (sig_, cname, mode), 'detail': detail})

    # reference: fresh manager, single query (real code)
    ref = []
    for q in pool:
        try:
            ref.append(impl.results(impl.ask(impl.mk_bb(sig, conds), system, p, impl.mk_queries([q]), weakly=weakly))[0])
        except Exception as e:
            if type(e).__name__ == 'SoftTimeout':
                raise
            res['inconclusive'].append('reference call raised %s: %s' % (type(e).__name__, str(e)[:100]))
            return res

    # script
    big_batch = rng.random() < 0.05
    big_batch_at = rng.randrange(2)
    if big_batch:
        bump('parallel_batches_larger_than_cpu_count')
    long_history = (not big_batch) and rng.random() < 0.2           # many short calls with freshly built query objects
    ncalls = rng.randint(8, 14) if long_history else rng.randint(2, 4)
    if long_history:
        bump('long_histories')
    script = []
    for ci in range(ncalls):
        k = rng.randint(1, 2) if long_history else rng.randint(1, 5)
        idxs = [rng.randrange(len(pool)) for _ in range(k)]      # duplicates possible
        if rng.random() < 0.3 and script:
            idxs = list(script[-1]['idxs'])
            rng.shuffle(idxs)
        if twins and ci < 2 and rng.random() < 0.8:
            idxs[rng.randrange(len(idxs))] = 5 + ci               # one twin per call on the same manager
            if rng.random() < 0.3:
                idxs.append(6 - ci)                               # or both in one batch
        keyclass = rng.choice(['1..n', 'arbitrary', 'zero-based'])
        if keyclass == '1..n':
            keys = list(range(1, len(idxs) + 1))
        elif keyclass == 'zero-based':
            keys = list(range(len(idxs)))
        else:
            keys = rng.sample(range(0, 60), len(idxs))
        multi = rng.random() < (0.1 if long_history else 0.4)
        if big_batch and ci == big_batch_at:
            # more queries in one parallel call than the machine has CPUs
            import os as _os
            nbig = (_os.cpu_count() or 4) + rng.randint(1, 6)
            idxs = [rng.randrange(len(pool)) for _ in range(nbig)]
            keys = rng.sample(range(0, 4 * nbig), nbig) if rng.random() < 0.5 else list(range(1, nbig + 1))
            multi = True
        call = {'idxs': idxs, 'keys': keys, 'multi': multi}
        if rng.random() < 0.3:
            # a generous budget that never expires must not change anything
            call['budget'] = rng.choice([{'inference_timeout': 1000}, {'total_timeout': 2000},
                                         {'total_timeout': 2000, 'inference_timeout': 900, 'preprocessing_timeout': 900}])
        if 'budget' not in call and rng.random() < 0.12:
            # a per-query budget that has run out before the query starts (preprocessing is not budgeted and
            # completes): its rows may be flagged; what is asked AFTERWARDS on the same manager must not notice
            call['budget'] = {'inference_timeout': 1e-9}
            call['tiny'] = True
        if multi:
            call['delays'] = {str(k_): round(rng.choice([0, 0, 0.05, 0.1, 0.2, 0.3]), 2) for k_ in keys}
            if rng.random() < 0.25 and len(idxs) >= 2 and not call.get('tiny'):
                call['hang'] = keys[rng.randrange(len(keys))]
        script.append(call)

    mon = instrument.ProcMon()
    sched = instrument.WorkerSchedule()
    mon.install()
    sched.install()
    try:
        from inference.inference_manager import InferenceManager
        args = dict(weakly=weakly)
        if p:
            args['pmaxsat_solver'] = p
        m = InferenceManager(impl.mk_bb(sig, conds), system, **args)
        for ci, call in enumerate(script):
            idxs, keys = call['idxs'], call['keys']
            queries = impl.mk_queries([pool[i] for i in idxs], keys=keys)
            mon.reset()
            sched.delays = {int(k_): v for k_, v in call.get('delays', {}).items()}
            sched.hang = {call['hang']} if 'hang' in call else set()
            mon.hung_keys = set(sched.hang)
            tag = 'call%d%s' % (ci + 1, '/parallel' if call['multi'] else '/sequential')
            if ci:
                bump('second_or_later_calls')
            if call.get('tiny'):
                bump('calls_with_expired_per_query_budget')
            elif call.get('budget'):
                bump('calls_with_generous_budget')
            import time as _time
            t_call = _time.time()
            try:
                df = m.inference(queries, multi_inference=call['multi'], **call.get('budget', {}))
                t_call = _time.time() - t_call
                del queries
                if long_history:
                    import gc
                    gc.collect()                 # let freed query objects' addresses be reused
            except Exception as e:
                if type(e).__name__ == 'SoftTimeout':
                    raise
                viol('history:exception:%s:%s' % (type(e).__name__, 'later-call' if ci else 'first-call'),
                     script=script, call=tag, error=str(e)[:200])
                mon.cleanup()
                break
            res['evals'] += 1
            if call['multi']:
                bump('parallel_calls')
                order = sched.completion_order()
                if len(order) >= 2:
                    canon = tuple(sorted(range(len(order)), key=lambda j: order[j]))
                    bump('completion_orders', '-'.join(map(str, [keys.index(int(o)) for o in order if int(o) in keys])))
                left = mon.leftovers()
                bump('processes_started', n=len(mon.procs))
                hang_effective = mon.virtual_timeouts > 0
                if 'hang' in call and hang_effective:
                    bump('hung_worker_calls')
                    bump('virtual_join_timeouts', n=mon.virtual_timeouts)
                elif 'hang' in call:
                    bump('hang_injection_not_reached')      # hook did not bite: nothing is judged on it
                if left:
                    viol('history:process-left-behind', script=script, call=tag,
                         leftovers=[{'pid': a, 'role': b, 'key': c} for a, b, c in left], events=mon.events[-20:])
                zomb = [pp.pid for (pp, role, key) in mon.procs if mon.state(pp.pid) == 'zombie']
                if zomb:
                    bump('zombies_observed', n=len(zomb))
                mon.cleanup()
            # ---- table checks
            rows = len(df)
            if rows != len(idxs):
                viol('history:row-count', script=script, call=tag, rows=rows, submitted=len(idxs))
                continue
            got_keys = [int(x) for x in df['index']]
            got_text = [str(x) for x in df['query']]
            got_res = [bool(x) for x in df['result']]
            got_to = [bool(x) for x in df['inference_timed_out']]
            exp_text = [texts[i] for i in idxs]
            dup = len(set(exp_text)) < len(exp_text)
            if dup:
                bump('calls_with_duplicate_texts')
            if got_text != exp_text:
                viol('history:row-text-order', script=script, call=tag, got=got_text, expected=exp_text)
            if got_keys != keys:
                viol('history:row-key%s' % (':duplicate-texts' if dup else ''), script=script, call=tag,
                     got=got_keys, expected=keys)
            if 'hang' in call and not (call['multi'] and hang_effective):
                continue
            for j, i in enumerate(idxs):
                hung = call.get('hang') == keys[j]
                if hung:
                    if not got_to[j] or got_res[j]:
                        viol('history:hung-worker-row-not-flagged', script=script, call=tag, row=j,
                             got=[got_res[j], got_to[j]])
                    continue
                if got_to[j] and call.get('tiny'):
                    bump('rows_flagged_by_expired_per_query_budget')
                    if got_res[j]:
                        viol('history:flagged-row-with-True', script=script, call=tag, row=j, query=texts[i])
                elif got_to[j]:
                    if call['multi'] and t_call > 8.0:
                        # the library joins workers with a real 10 s allowance when no budget is set: on an
                        # overloaded machine a slow worker may really be timed out — environment, not a verdict
                        res['inconclusive'].append('parallel call took %.1fs wall clock; flagged row not judged' % t_call)
                    else:
                        viol('history:row-flagged-timed-out-without-budget%s' % (':other-worker-hung' if 'hang' in call else ''),
                             script=script, call=tag, row=j, query=texts[i])
                elif got_res[j] != ref[i]:
                    viol('history:answer-differs-from-fresh-single-query:%s%s' % ('later-call' if ci else 'first-call',
                                                                                  ':with-expired-budget' if call.get('tiny') else ':with-budget' if call.get('budget') else ''),
                         script=script, call=tag, row=j, query=texts[i], got=got_res[j], fresh=ref[i])
    finally:
        mon.cleanup()
        sched.uninstall()
        mon.uninstall()
    res['nontrivial'].append(h(bdesc, script, cname, mode))
    res['sample'] = {'base': bdesc, 'config': cname, 'mode': mode, 'queries': texts,
                     'script': script, 'fresh_answers': ref}
    return res

"""C09: every operator satisfies direct inference and the System P postulates, RM for Z and lex (DESIGN.md section 7, C09)."""
from .. import fml, gen, corpus
from .. import impl
from ..fml import V, Not, And, Or, TOP, BOT
from .opcommon import h, base_desc

ID = 'C09'
LEVEL = 'exploration'
RULE = ('relational monitor: per base and operator/back-end/mode two batches of related queries against the real '
        'code. Batch 1 = grid antecedents x consequents (own rules, weakenings C;X, negations, rewrites A\') plus '
        'DI/REF/SCL instances; batch 2 = conclusions instantiated from the rows that came back True (AND, CM, '
        'CUT, OR, RM, LLE). Classical side conditions are constructed, not solved for. Bases: small generated '
        '(strict/extended), shipped corpora and unions up to ~40 atoms. Non-trivial = postulate instance whose '
        'premises were all answered True (unconditional postulates: every instance); distinct by hash(base, '
        'configuration, mode, postulate, formulas).')
ASSUMPTIONS = ['postulates hold for the intended semantics in both modes (validated on the reference semantics)',
               'CP needs a satisfiable antecedent: antecedents of rules of a strongly consistent base are used']
TRUSTED = []
FLOOR = {'quick': 2000, 'thorough': 20000}
BUDGET = {'quick': 110, 'thorough': 1800}
HARD_TIMEOUT = 400
SOFT_TIMEOUT = 300
N = {'quick': 160, 'thorough': 5000}
POSTULATES = ['DI', 'REF', 'SCL', 'LLE', 'RW', 'AND', 'OR', 'CM', 'CUT', 'RM', 'CP']
REQUIRED = {'quick': {'nontrivial_' + p: 20 for p in POSTULATES},
            'thorough': {'nontrivial_' + p: 200 for p in POSTULATES}}


def cases(tier, seed):
    out = []
    for i in range(N[tier]):
        k = i % 10
        kind = 'small-strict' if k < 4 else 'small-ext' if k < 7 else 'corpus' if k < 8 else 'union'
        out.append({'prop': ID, 'seed': seed, 'idx': i, 'kind': kind, 'tier': tier})
    from ..witness import WITNESSES
    for rep in range(1 if tier == 'quick' else 12):
        for i in range(len(WITNESSES)):
            out.insert(0, {'prop': ID, 'seed': seed, 'idx': 10 ** 6 + rep * 100 + i, 'kind': 'witness', 'witness': i, 'tier': tier})
    wit = [c for c in out if c['kind'] == 'witness']
    big = [c for c in out if c['kind'] in ('corpus', 'union')]
    small = [c for c in out if c['kind'].startswith('small')]
    head = []
    for i in range(max(len(big[:120]), len(small))):       # alternate: a slow machine still reaches every kind
        if i < len(small):
            head.append(small[i])
        if i < len(big[:120]):
            head.append(big[i])
    hs = {id(c) for c in head} | {id(c) for c in wit}
    return wit + head + [c for c in out if id(c) not in hs]


def run_case(case):
    rng = gen.rng_for(case['seed'], ID, case['idx'])
    kind = case['kind']
    res = {'evals': 0, 'nontrivial': [], 'violations': [], 'inconclusive': [], 'counters': {}}
    cnt = res['counters']

    def bump(k, sub=None, n=1):
        if sub is None:
            cnt[k] = cnt.get(k, 0) + n
        else:
            d = cnt.setdefault(k, {})
            d[sub] = d.get(sub, 0) + n
    weakly = False
    src = kind
    small = kind.startswith('small')
    wq = None
    if kind == 'witness':
        from .. import witness
        wname, sig, conds, wq, ext_only = witness.asts(case['witness'])
        weakly = bool(ext_only) or rng.random() < 0.2
        src = 'witness:' + wname
        small = len(sig) <= 6
        bump('witness_cases')
    elif kind == 'small-strict':
        sig, conds, _ = gen.gen_base(rng, 'strong')
    elif kind == 'small-ext':
        sig, conds, _ = gen.gen_base(rng, 'weak_or_strong')
        weakly = True
    elif kind == 'union':
        weakly = rng.random() < 0.3
        sig, conds = corpus.union_base(rng, parts=rng.randint(3, 6), want='weak' if weakly else 'strong')
    else:
        files = corpus.random_large(20 if case.get('tier') == 'quick' else 40)
        a, c, i, path = files[rng.randrange(len(files))]
        src = path.split('/examples/')[-1]
        _, sig, conds = corpus.load(path)
        weakly = rng.random() < 0.25
    mode = 'extended' if weakly else 'strict'
    bdesc = {'source': src, 'atoms': len(sig), 'conditionals': len(conds)}
    if len(conds) <= 8:
        bdesc.update(base_desc(sig, conds))
    cfgs = [c for c in impl.CONFIGS if not (c[0] == 'c-inference' and (weakly or len(conds) > 25))
            and not (c[1] == 'z3' and len(sig) > 30)]
    if not small:
        cfgs = rng.sample(cfgs, 3)
    atoms = sig if len(sig) <= 8 else rng.sample(sig, 8)

    # ---- batch 1 ------------------------------------------------------------------
    rules = [rng.choice(conds) for _ in range(3)]
    if wq:
        # the witness's own (delicate) queries take the place of two of the three rules: their antecedents and
        # consequents then run through every postulate instance below (RW partner, And, CM/Cut, RM, Or)
        pick = rng.sample(wq, min(2, len(wq)))
        rules[0], rules[1] = pick[0], pick[-1]
    As = [r[1] for r in rules[:2]]
    As.append(And(rules[2][1], rules[2][0]) if rng.random() < 0.5 else fml.rand_formula(rng, atoms, 1, 0.0))
    if rng.random() < 0.5:
        As.append(fml.rand_formula(rng, atoms, 2, 0.02))
    # an antecedent that forces a tie (disjunction of falsifiers of rules of one layer)
    if small:
        tq = gen.tie_query(rng, sig, conds)
    else:
        layers = corpus.real_partition(impl.mk_bb(sig, conds), weakly)
        tq = corpus.tie_query_large(rng, sig, conds, layers) if layers else None
    if tq is not None:
        As[-1] = tq[1]
        bump('batches_with_tie_antecedent')
    Cs = []
    for r in rules:
        Cs.append(r[0])
    x = fml.rand_formula(rng, atoms, 1, 0.0)
    Cs.append(Or(Cs[0], x))                       # RW partner of Cs[0]
    Cs.append(Not(Cs[1]))                         # RM side condition
    Cs.append(fml.rand_formula(rng, atoms, 1, 0.02))
    Cs.append(V(rng.choice(atoms)))
    b1 = []                                       # (tag, B, A)
    for ai, A in enumerate(As):
        for ci, C in enumerate(Cs):
            b1.append((('G', ai, ci), C, A))
    for k, (B, A) in enumerate(conds[:12] if len(conds) > 12 else conds):
        b1.append((('DI', k), B, A))
    for ai, A in enumerate(As):
        b1.append((('REF', ai), A, A))
        b1.append((('SCL', ai), Or(A, fml.rand_formula(rng, atoms, 1, 0.0)), A))
        b1.append((('CP', ai), BOT, A))
    Ar = [fml.equivalent_rewrite(rng, A, atoms) for A in As]

    for (system, p) in cfgs:
        cname = impl.cfg_name(system, p)

        def ask(batch):
            qs = [(B, A) for (_, B, A) in batch]
            df = impl.ask(impl.mk_bb(sig, conds), system, p, impl.mk_queries(qs), weakly=weakly)
            r = impl.results(df)
            assert len(r) == len(qs)
            return r

        def inst(post, premises_true, ok, **detail):
            """record one postulate instance"""
            res['evals'] += 1
            bump('instances_' + post, cname)
            if premises_true:
                bump('nontrivial_' + post)
                res['nontrivial'].append(h(bdesc, cname, mode, post, detail))
                if not ok:
                    res['violations'].append({
                        'sig': 'postulate:%s:%s:%s:violated' % (post, cname, mode),
                        'detail': dict(base=bdesc, **detail)})
        try:
            r1 = ask(b1)
        except Exception as e:
            if type(e).__name__ == 'SoftTimeout':
                raise
            res['inconclusive'].append('%s %s batch1 on %s: %s: %s' % (cname, mode, src, type(e).__name__, str(e)[:120]))
            continue
        ans = {t: v for (t, _, _), v in zip(b1, r1)}
        G = lambda ai, ci: ans[('G', ai, ci)]
        T = fml.cond_text
        for (t, B, A), v in zip(b1, r1):
            if t[0] == 'DI':
                inst('DI', True, v, query=T(B, A))
            elif t[0] == 'REF':
                inst('REF', True, v, query=T(B, A))
            elif t[0] == 'SCL':
                inst('SCL', True, v, query=T(B, A))
            elif t[0] == 'CP' and not weakly:
                # antecedents of rules of a strongly consistent base are satisfiable (verifiable rules)
                if t[1] < 2 and not wq:
                    inst('CP', True, not v, query=T(B, A))
        rw_ci = len(rules)                      # index of Cs[0] ; X
        for ai in range(len(As)):
            inst('RW', G(ai, 0), G(ai, rw_ci), premise=T(Cs[0], As[ai]), conclusion=T(Cs[rw_ci], As[ai]))
        # ---- batch 2 --------------------------------------------------------------
        b2 = []
        for ai, A in enumerate(As):
            true_c = [ci for ci in range(len(Cs)) if G(ai, ci)]
            false_c = [ci for ci in range(len(Cs)) if not G(ai, ci)]
            for ci in range(len(Cs)):
                if rng.random() < 0.5:
                    b2.append((('LLE', ai, ci), Cs[ci], Ar[ai]))
            for c1 in true_c:
                for c2 in true_c:
                    if c1 < c2:
                        b2.append((('AND', ai, c1, c2), And(Cs[c1], Cs[c2]), A))
                for c2 in range(len(Cs)):
                    if c1 != c2:
                        b2.append((('CMCUT', ai, c1, c2), Cs[c2], And(A, Cs[c1])))
            # RM: (C|A) True and (!B|A) False  =>  (C|A&B) True ;  B := Cs[1], !B = Cs[len(rules)+1]
            nb = len(rules) + 1
            if system in ('system-z', 'lex_inf') and not G(ai, nb):
                for c in true_c:
                    b2.append((('RM', ai, c), Cs[c], And(A, Cs[1])))
            for aj in range(ai + 1, len(As)):
                for c in true_c:
                    if G(aj, c):
                        b2.append((('OR', ai, aj, c), Cs[c], Or(A, As[aj])))
        if len(b2) > 40:
            b2 = rng.sample(b2, 40)
        if not b2:
            continue
        try:
            r2 = ask(b2)
        except Exception as e:
            if type(e).__name__ == 'SoftTimeout':
                raise
            res['inconclusive'].append('%s %s batch2 on %s: %s: %s' % (cname, mode, src, type(e).__name__, str(e)[:120]))
            continue
        for (t, B, A), v in zip(b2, r2):
            k = t[0]
            if k == 'LLE':
                inst('LLE', True, v == G(t[1], t[2]), original=T(Cs[t[2]], As[t[1]]), rewritten=T(B, A),
                     answers=[G(t[1], t[2]), v])
            elif k == 'AND':
                inst('AND', True, v, premises=[T(Cs[t[2]], As[t[1]]), T(Cs[t[3]], As[t[1]])], conclusion=T(B, A))
            elif k == 'CMCUT':
                # (c1|a) is True.  CM: (c2|a) True => (c2|a&c1) True.  CUT: (c2|a&c1) True => (c2|a) True.
                g = G(t[1], t[3])
                inst('CM', g, v, premises=[T(Cs[t[2]], As[t[1]]), T(Cs[t[3]], As[t[1]])], conclusion=T(B, A))
                inst('CUT', v, g, premises=[T(Cs[t[2]], As[t[1]]), T(B, A)], conclusion=T(Cs[t[3]], As[t[1]]))
            elif k == 'RM':
                inst('RM', True, v, premises=[T(Cs[t[2]], As[t[1]]), 'not ' + T(Not(Cs[1]), As[t[1]])],
                     conclusion=T(B, A))
            elif k == 'OR':
                inst('OR', True, v, premises=[T(Cs[t[3]], As[t[1]]), T(Cs[t[3]], As[t[2]])], conclusion=T(B, A))
    # ---- the same base OBJECT edited in place: direct inference (and And over its rules) must hold for the
    # edited content, whatever was computed for the object before
    if small and len(conds) >= 2 and rng.random() < 0.3:
        from .. import refmodel as rm
        for _ in range(20):
            j = rng.randrange(len(conds))
            Bx, Ax = rng.choice(conds)
            newc = (Not(Bx), And(Ax, fml.rand_formula(rng, atoms, 1, 0.0))) if rng.random() < 0.6 else \
                gen.rand_base(rng, nat=len(sig), ncond=1, depth=rng.choice([0, 1]), p_const=0.0)[1][0]
            if rng.random() >= 0.6:
                m_ = dict(zip(gen.NAMES, sig))
                newc = (fml.rename(newc[0], m_), fml.rename(newc[1], m_))
            conds2 = list(conds)
            conds2[j] = newc
            st2 = rm.Setup(rm.Base(sig, conds2), weakly)
            if st2.ok and newc != conds[j] and (not weakly or j not in st2.inf):
                break
        else:
            conds2 = None
        if conds2 is not None:
            bump('in_place_edit_histories')
            bdesc2 = dict(bdesc, edited_position=j, new_rule=fml.cond_text(*newc))
            for (system, p) in cfgs:
                cname = impl.cfg_name(system, p)
                try:
                    bb = impl.mk_bb(sig, conds)
                    kl = list(bb.conditionals.keys())
                    impl.ask(bb, system, p, impl.mk_queries(conds[:2]), weakly=weakly)
                    nc = impl.mk_cond(*newc)
                    nc.index = kl[j]
                    bb.conditionals[kl[j]] = nc
                    fin = [c for i_, c in enumerate(conds2) if i_ not in st2.inf]
                    r = impl.results(impl.ask(bb, system, p, impl.mk_queries(fin), weakly=weakly))
                except Exception as e:
                    if type(e).__name__ == 'SoftTimeout':
                        raise
                    res['violations'].append({'sig': 'postulate:DI:%s:%s:exception-after-in-place-edit:%s' % (cname, mode, type(e).__name__),
                                              'detail': dict(base=bdesc2, error=str(e)[:200])})
                    continue
                for (B, A), v in zip(fin, r):
                    res['evals'] += 1
                    bump('instances_DI_after_in_place_edit', cname)
                    if not v:
                        res['violations'].append({'sig': 'postulate:DI:%s:%s:violated-after-in-place-edit' % (cname, mode),
                                                  'detail': dict(base=bdesc2, query=fml.cond_text(B, A))})
    res['sample'] = {'base': bdesc, 'mode': mode, 'antecedents': [fml.to_text(a) for a in As],
                     'consequents': [fml.to_text(c) for c in Cs]}
    return res

"""C17: the c-representation ranking object is a Pareto-minimal model of the base; the Pareto front enumeration terminates and is exact (DESIGN.md section 7, C17)."""
from .. import fml, gen, refmodel as rm, cref
from .. import impl, instrument
from .opcommon import h, base_desc

ID = 'C17'
LEVEL = 'exploration'
RULE = ('strongly consistent generated bases (<= 4 atoms, <= 5 conditionals; every 12th case 10-12 conditionals over <= 6 atoms, keys 1..n listed in a permuted insertion order in a third of the cases; unfalsifiable conditionals, '
        'single-conditional bases, duplicates, penguin shapes): PreOCF.init_random_min_c_rep(bb) must succeed with '
        'non-negative integer impacts that form a c-representation (reference check on enumerated worlds), rank '
        'EVERY world with the sum of the impacts of the conditionals it falsifies, accept every base conditional, '
        'be Pareto-minimal (exact: every vector in the box below it is tested), and accept every query with '
        'satisfiable antecedent that the c-inference operator answers True. c_inference_pareto_front(bb) runs '
        'under a logical step counter on z3.Optimize.check: more than max(4*(m+2)+8, 300) checks (m = number of Pareto-minimal '
        'vectors in the reference box; 4000 for the large cases) or a repeated vector is a non-termination / duplication verdict; the '
        'returned set must equal the reference front inside the box {0..max+2}^n. Non-trivial = base whose minimal '
        'impact vector is not all ones, or whose front has >= 2 members; distinct by hash(base).')
ASSUMPTIONS = ['front completeness is decided inside the box {0..max(front)+2}^n; minimal vectors outside it are out of reach',
               'keys 1..n (the ranking object documents impacts indexed by key-1)']
TRUSTED = []
FLOOR = {'quick': 150, 'thorough': 1500}
BUDGET = {'quick': 100, 'thorough': 1500}
N = {'quick': 2000, 'thorough': 20000}
REQUIRED = {'quick': {'large_fronts_checked': 15, 'fronts_checked': 150, 'fronts_with_several_members': 5, 'bases_with_unfalsifiable_conditional': 30},
            'thorough': {'large_fronts_checked': 300, 'fronts_checked': 3000, 'fronts_with_several_members': 50, 'bases_with_unfalsifiable_conditional': 300}}
RECYCLE = 60


class Stall(BaseException):
    pass


def cases(tier, seed):
    out = [{'prop': ID, 'seed': seed, 'idx': i, 'large': i % 12 == 0} for i in range(N[tier])]
    # a bounded number of the (slow) large cases first, so that they do not form the tail of the run; the rest
    # keep their place - otherwise a loaded machine spends the whole budget on large cases alone
    head = [c for c in out if c['large']][:60 if tier == 'quick' else 400]
    hs = {c['idx'] for c in head}
    return head + [c for c in out if c['idx'] not in hs]


def run_case(case):
    from inference.preocf import PreOCF
    from inference.c_revision import c_inference_pareto_front
    import z3
    rng = gen.rng_for(case['seed'], ID, case['idx'])
    res = {'evals': 0, 'nontrivial': [], 'violations': [], 'inconclusive': [], 'counters': {}}
    cnt = res['counters']

    def bump(k, n=1):
        cnt[k] = cnt.get(k, 0) + n
    fam = rng.choices(['rand', 'chain', 'indep', 'birds', 'single'], [8, 1, 2, 0.5, 1])[0]
    large = bool(case.get('large'))
    if large:
        # >= 10 conditionals over <= 6 atoms: union of two small bases over disjoint atoms plus bridges; the
        # front is judged without a box (soundness, exact minimality, membership of the object's impacts)
        s1, c1, _ = gen.gen_base(rng, 'strong', family='rand', nat=3, ncond=rng.randint(5, 6))
        s2, c2, _ = gen.gen_base(rng, 'strong', family='rand', nat=3, ncond=rng.randint(5, 6))
        m2 = dict(zip(gen.NAMES[:3], ['d', 'e', 'f']))
        sig = list(s1) + [m2[a] for a in s2]
        conds = list(c1) + [(fml.rename(B, m2), fml.rename(A, m2)) for (B, A) in c2]
        if rng.random() < 0.5:
            # a bridge rule between the two halves (kept only if the base stays strongly consistent)
            extra = (fml.V(rng.choice(sig[3:])), fml.V(rng.choice(sig[:3])))
            if gen.classify(sig, conds + [extra])[0] == 'strong':
                conds.append(extra)
        rng.shuffle(conds)
        fam = 'large'
    elif fam == 'birds':
        sig, conds = gen.BIRDS
        sig, conds = list(sig), list(conds)
        if rng.random() < 0.5:
            conds.append((fml.V('w'), fml.V('p')))
    elif fam == 'single':
        sig, conds, _ = gen.gen_base(rng, 'strong', family='rand', nat=rng.randint(1, 3), ncond=1)
    elif fam == 'rand':
        sig, conds, _ = gen.gen_base(rng, 'strong', family='rand', nat=rng.randint(2, 4), ncond=rng.randint(1, 5),
                                     knobs={'unfals': 0.15, 'dup': 0.08, 'fact': 0.05})
    else:
        for _ in range(50):
            sig, conds, _ = gen.gen_base(rng, 'strong', family=fam)
            if len(sig) <= 4 and len(conds) <= 5:
                break
        else:
            sig, conds, _ = gen.gen_base(rng, 'strong', family='rand', nat=3, ncond=4)
    bdesc = base_desc(sig, conds)
    # keys stay 1..n, but the dict may list them in another order (insertion order is presentation)
    order = list(range(len(conds)))
    if rng.random() < 0.35:
        rng.shuffle(order)
        bump('objects_with_permuted_insertion_order')
    bdesc['insertion_order_of_keys'] = [i + 1 for i in order]

    def mkbb():
        return impl.mk_bb(sig, [conds[i] for i in order], keys=[i + 1 for i in order])

    def viol(sig_, **d):
        d['base'] = bdesc
        res['violations'].append({'sig': 'crep:' + sig_, 'detail': d})
    base = rm.Base(sig, conds)
    cs = cref.CSys(base)
    n = len(conds)
    unf = [i for i in range(n) if not base.fal[i]]
    if unf:
        bump('bases_with_unfalsifiable_conditional')
    worlds = [fml.world_str(w, sig) for w in range(1 << len(sig))]

    # ---- the ranking object
    impacts = None
    try:
        o = PreOCF.init_random_min_c_rep(mkbb())
        impacts = o.save_impacts()
    except Exception as e:
        if type(e).__name__ == 'SoftTimeout':
            raise
        viol('construction-failed:%s%s' % (type(e).__name__, ':unfalsifiable-conditional' if unf else ''),
             error=str(e)[:200])
    if impacts is not None:
        res['evals'] += 1
        bump('objects_built')
        if not (isinstance(impacts, list) and len(impacts) == n and all(isinstance(x, int) and x >= 0 for x in impacts)):
            viol('impacts-not-nonnegative-ints', impacts=str(impacts))
        else:
            eta = tuple(impacts)
            if not cs.is_crep(eta):
                viol('impacts-not-a-c-representation', impacts=impacts)
            else:
                ok, below = cs.pareto_minimal(eta)
                res['evals'] += 1
                if not ok:
                    viol('impacts-not-pareto-minimal', impacts=impacts, smaller=list(below))
            ranks = o.compute_all_ranks()
            for w in range(1 << len(sig)):
                res['evals'] += 1
                if ranks.get(worlds[w]) != cs.rank(eta, w):
                    viol('world-rank-not-sum-of-impacts', world=worlds[w], got=ranks.get(worlds[w]),
                         expected=cs.rank(eta, w), impacts=impacts)
                    break
            for i, (B, A) in enumerate(conds):
                if not o.conditional_acceptance(impl.mk_cond(B, A)):
                    viol('base-conditional-not-accepted', conditional=fml.cond_text(B, A), impacts=impacts)
            qs = gen.gen_queries(rng, sig, conds, 6, extra_atom_p=0.0)
            try:
                op = impl.results(impl.ask(mkbb(), 'c-inference', 'rc2', impl.mk_queries(qs)))
            except Exception as e:
                op = None
                res['inconclusive'].append('c-inference raised %s' % type(e).__name__)
            for qi, (B, A) in enumerate(qs):
                if op is None or not op[qi] or not fml.tt(A, base.wsig):
                    continue
                res['evals'] += 1
                bump('entailed_queries_checked_for_acceptance')
                if not o.conditional_acceptance(impl.mk_cond(B, A)):
                    viol('c-inferred-query-not-accepted', query=fml.cond_text(B, A), impacts=impacts)
            if any(x != 1 for x in impacts):
                res['nontrivial'].append(h(bdesc))

    # ---- Pareto front under a logical step budget
    U = min(5, (max(impacts) if impacts else 2) + 2)
    while (U + 1) ** n > 8000 and U > 2:
        U -= 1
    if large:
        ref_front, U = [], -1
        m = 12                          # generous step allowance; completeness is not box-checked here
    else:
        ref_front = sorted(cs.pareto_front_box(U))
        m = len(ref_front)
    # bounded progress in logical steps: one check per front member plus a few; generous slack, because the
    # reference box may not contain the whole front (and for large cases there is no box at all — a 14-rule
    # base was observed with 72 front members).  Non-termination means repeating for ever, so slack costs
    # only a fraction of a second of detection time.
    limit = 4000 if large else max(4 * (m + 2) + 8, 300)
    orig = z3.Optimize.check
    st = {'n': 0}

    def check(self_o, *a):
        st['n'] += 1
        if st['n'] > limit:
            raise Stall()
        return orig(self_o, *a)
    z3.Optimize.check = check
    front = None
    try:
        front = c_inference_pareto_front(mkbb())
    except Stall:
        if large:
            # no reference front here, hence no bound on its size that could be called exact: not a verdict
            res['inconclusive'].append('large base: front enumeration stopped after %d optimiser checks' % st['n'])
        else:
            viol('front-enumeration-does-not-terminate%s' % (':single-conditional' if n == 1 else ''),
                 checks=st['n'], limit=limit, reference_front=[list(x) for x in ref_front])
    except Exception as e:
        if type(e).__name__ == 'SoftTimeout':
            raise
        viol('front-enumeration-raised:%s' % type(e).__name__, error=str(e)[:200])
    finally:
        z3.Optimize.check = orig
    if front is not None:
        res['evals'] += 1
        bump('fronts_checked')
        bump('optimizer_checks', st['n'])
        fl = [tuple(x) for x in front]
        if len(set(fl)) != len(fl):
            viol('front-contains-duplicates', front=[list(x) for x in fl])
        for x in set(fl):
            if not cs.is_crep(x):
                viol('front-member-not-a-c-representation', vector=list(x))
            elif not cs.pareto_minimal(x)[0]:
                viol('front-member-not-pareto-minimal', vector=list(x), smaller=list(cs.pareto_minimal(x)[1]))
        if large:
            bump('large_fronts_checked')
            if impacts is not None and cs.is_crep(tuple(impacts)) and cs.pareto_minimal(tuple(impacts))[0] \
                    and tuple(impacts) not in set(fl):
                viol('front-misses-the-objects-own-minimal-impacts', impacts=impacts, front=[list(x) for x in fl][:6])
        inbox = {x for x in fl if all(v <= U for v in x)}
        missing = set(ref_front) - inbox
        if missing:
            viol('front-misses-minimal-vector', missing=[list(x) for x in sorted(missing)],
                 front=[list(x) for x in fl], box=U)
        if m >= 2 and not large:
            bump('fronts_with_several_members')
            res['nontrivial'].append(h(bdesc, 'front'))
    # ---- the same BeliefBase object after one of its rules was replaced in place
    if not large and n >= 2 and rng.random() < 0.3:
        bb = mkbb()
        try:
            PreOCF.init_random_min_c_rep(bb).save_impacts()
            c_inference_pareto_front(bb)
        except Exception:
            pass
        for _ in range(20):
            j = rng.randrange(n)
            newc = gen.rand_base(rng, nat=len(sig), ncond=1, depth=rng.choice([0, 1]), p_const=0.0)[1][0]
            conds2 = list(conds)
            conds2[j] = newc
            if newc != conds[j] and gen.classify(sig, conds2)[0] == 'strong':
                break
        else:
            conds2 = None
        if conds2 is not None:
            bump('in_place_edits')
            nc = impl.mk_cond(*newc)
            nc.index = j + 1
            bb.conditionals[j + 1] = nc
            cs2 = cref.CSys(rm.Base(sig, conds2))
            try:
                o2 = PreOCF.init_random_min_c_rep(bb)
                imp2 = tuple(o2.save_impacts())
                res['evals'] += 1
                if not cs2.is_crep(imp2):
                    stale = impacts is not None and list(imp2) == list(impacts)
                    viol('impacts-not-a-c-representation-after-in-place-edit%s' % (':equals-impacts-for-old-content' if stale else ''),
                         impacts=list(imp2), base_after=base_desc(sig, conds2))
                elif not cs2.pareto_minimal(imp2)[0]:
                    viol('impacts-not-pareto-minimal-after-in-place-edit', impacts=list(imp2), base_after=base_desc(sig, conds2))
                f2 = c_inference_pareto_front(bb)
                for x in {tuple(v) for v in f2}:
                    if not cs2.is_crep(x):
                        viol('front-member-not-a-c-representation-after-in-place-edit', vector=list(x),
                             base_after=base_desc(sig, conds2))
                        break
            except Exception as e:
                if type(e).__name__ == 'SoftTimeout':
                    raise
                viol('raised-after-in-place-edit:%s' % type(e).__name__, error=str(e)[:200], base_after=base_desc(sig, conds2))
    res['sample'] = {'base': bdesc, 'impacts': impacts, 'reference_front_in_box': [list(x) for x in ref_front],
                     'front': None if front is None else [list(x) for x in front], 'optimizer_checks': st['n']}
    return res

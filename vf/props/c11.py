"""C11: answers do not depend on the chosen partial-MaxSAT back-end / SAT engine (DESIGN.md section 7, C11)."""
from .. import fml, gen, corpus, engines, refmodel as rm
from .. import impl
from .opcommon import h, base_desc

ID = 'C11'
LEVEL = 'exploration'
RULE = ('differential monitor: the same (base, queries, mode) under every selectable pmaxsat_solver value: z3, '
        'rc2, rc2-<engine> for every PySAT engine that a calibration in one-shot subprocesses shows RC2 can drive '
        'on this image (quick: 6 representatives, thorough: all), plus upper-case spellings. System W and lex_inf: '
        'all answers equal; c-inference: equal across rc2 engines. The witness corpus (vf/witness.py), small generated bases in both modes, corpus '
        'and union bases up to 40 atoms. Non-trivial = small base: A&B and A&!B both feasible; large base: row '
        'of a batch in which some answer is True; distinct by hash(base, query, system, mode).')
ASSUMPTIONS = ['an exception raised from inside PySAT (RC2 or the SAT engine) under an explicitly named engine is an engine failure, counted and not judged (observed rarely with mcb)',
               'an engine RC2 cannot drive (cms, lgl, ks on this image: wrong optima or process abort in the '
               'calibration) is not a usable SAT engine in the sense of the property']
TRUSTED = []
FLOOR = {'quick': 300, 'thorough': 3000}
BUDGET = {'quick': 100, 'thorough': 1800}
HARD_TIMEOUT = 400
SOFT_TIMEOUT = 300
N = {'quick': 260, 'thorough': 4000}
QUICK_ENGINES = ['g3', 'cd', 'm22', 'mc', 'mcb', 'mg3']
REQUIRED = {'quick': {'backends_compared': 500}, 'thorough': {'backends_compared': 20000}}


def cases(tier, seed):
    ok, bad = engines.usable()
    if tier == 'quick':
        eng = [e for e in QUICK_ENGINES if e in ok]
    else:
        eng = ok
    out = []
    for i in range(N[tier]):
        k = i % 10
        kind = 'small-strict' if k < 4 else 'small-ext' if k < 7 else 'corpus' if k < 8 else 'union'
        out.append({'prop': ID, 'seed': seed, 'idx': i, 'kind': kind, 'engines': eng, 'unusable': bad,
                    'tier': tier})
    big = [c for c in out if c['kind'] in ('corpus', 'union')]
    head = big[:100]
    hs = {id(c) for c in head}
    from .. import witness
    wit = [{'prop': ID, 'seed': seed, 'idx': 10 ** 6 + i, 'kind': 'witness', 'witness': i, 'engines': eng,
            'unusable': bad, 'tier': tier} for i in range(len(witness.WITNESSES))]
    return wit + head + [c for c in out if id(c) not in hs]


def run_case(case):
    rng = gen.rng_for(case['seed'], ID, case['idx'])
    kind = case['kind']
    res = {'evals': 0, 'nontrivial': [], 'violations': [], 'inconclusive': [], 'counters': {}}
    cnt = res['counters']

    def bump(k, sub=None, n=1):
        if sub is None:
            cnt[k] = cnt.get(k, 0) + n
        else:
            d = cnt.setdefault(k, {})
            d[sub] = d.get(sub, 0) + n
    weakly = False
    src = kind
    small = kind.startswith('small')
    if kind == 'witness':
        # the hand-built corpus of delicate inputs (vf/witness.py) with its own and generated tie-forcing queries
        from .. import witness
        from parser.Wrappers import parse_belief_base, parse_queries
        name, sigt, rules, qtexts, extended_only = witness.WITNESSES[case['witness']]
        bb0 = parse_belief_base(witness.text(sigt, rules))
        sig = list(bb0.signature)
        conds = [(fml.from_pysmt(c.consequence), fml.from_pysmt(c.antecedence)) for c in bb0.conditionals.values()]
        qs = [(fml.from_pysmt(c.consequence), fml.from_pysmt(c.antecedence))
              for c in parse_queries(','.join(qtexts)).conditionals.values()]
        if len(sig) <= 7:
            qs += gen.gen_queries(rng, sig, conds, 4, p_tie=0.8, extra_atom_p=0.0)
        weakly = extended_only or rng.random() < 0.5
        src = 'witness:' + name
        small = len(sig) <= 7
    elif kind == 'small-strict':
        sig, conds, _ = gen.gen_base(rng, 'strong')
        qs = gen.gen_queries(rng, sig, conds, 8)
    elif kind == 'small-ext':
        sig, conds, _ = gen.gen_base(rng, 'weak_or_strong')
        qs = gen.gen_queries(rng, sig, conds, 8)
        weakly = True
    elif kind == 'union':
        weakly = rng.random() < 0.3
        sig, conds = corpus.union_base(rng, parts=rng.randint(3, 6), want='weak' if weakly else 'strong')
        qs = corpus.derived_queries(rng, sig, conds, 5, layers=corpus.real_partition(impl.mk_bb(sig, conds)))
    else:
        files = corpus.random_large(20 if case.get('tier') == 'quick' else 40)
        a, c, i, path = files[rng.randrange(len(files))]
        src = path.split('/examples/')[-1]
        _, sig, conds = corpus.load(path)
        weakly = rng.random() < 0.25
        qs = corpus.derived_queries(rng, sig, conds, 5, layers=corpus.real_partition(impl.mk_bb(sig, conds)))
    mode = 'extended' if weakly else 'strict'
    bdesc = {'source': src, 'atoms': len(sig), 'conditionals': len(conds)}
    if len(conds) <= 8:
        bdesc.update(base_desc(sig, conds))
    # a share of the small cases evaluates the batch in worker processes: the back-end is then chosen and
    # driven inside the worker
    par = {'multi_inference': True} if (small and rng.random() < 0.1) else {}
    if par:
        bump('cases_evaluated_in_parallel')
        x = fml.V(rng.choice(sig))
        qs = qs[:3] + [(fml.rand_formula(rng, sig, 0, 0.0), fml.And(x, fml.Not(x))),
                       (fml.Or(x, fml.Not(x)), fml.rand_formula(rng, sig, 1, 0.0))]
    engs = case['engines']
    backends = ['z3', 'rc2'] + ['rc2-' + e for e in engs]
    spell = rng.choice(['RC2', 'Rc2-' + rng.choice(engs).upper(), 'Z3'])
    backends.append(spell)
    nontriv_rows = None
    if small:
        extra = set()
        for (B, A) in qs:
            fml.atoms(B, extra)
            fml.atoms(A, extra)
        base = rm.Base(sig, conds, extra_atoms=sorted(extra))
        st = rm.Setup(base, weakly)
        nontriv_rows = [bool(base.q(B, A)[0] & st.feas) and bool(base.q(B, A)[1] & st.feas) for (B, A) in qs]
    # a share of the cases hands ONE BeliefBase object to the managers of all back-ends (and first to a manager of
    # the other mode): whatever a back-end leaves on the object must not reach the next one
    shared_bb = impl.mk_bb(sig, conds) if rng.random() < 0.2 else None
    if shared_bb is not None:
        bump('cases_with_one_base_object_for_all_backends')
    for system in ('system-w', 'lex_inf', 'c-inference'):
        if system == 'c-inference' and (weakly or len(conds) > 25):
            continue
        cols = {}
        for p in backends:
            if system == 'c-inference' and p.lower() == 'z3':
                continue
            try:
                bb_ = shared_bb if shared_bb is not None else impl.mk_bb(sig, conds)
                if shared_bb is not None and system != 'c-inference':
                    try:
                        impl.ask(bb_, system, p, impl.mk_queries(qs[:1]), weakly=not weakly)
                    except Exception as e_:
                        if type(e_).__name__ == 'SoftTimeout':
                            raise
                cols[p] = impl.results(impl.ask(bb_, system, p, impl.mk_queries(qs), weakly=weakly, **par))
            except Exception as e:
                if type(e).__name__ == 'SoftTimeout':
                    raise
                import traceback
                tb = traceback.extract_tb(e.__traceback__)
                inner = tb[-1].filename if tb else ''
                where = ' @ ' + ' <- '.join('%s:%d:%s' % (f.filename.split('/')[-1], f.lineno, f.name) for f in tb[-5:])
                if '/pysat/' in inner and p.lower().startswith('rc2-'):
                    # the exception comes from inside PySAT's RC2 / the SAT engine itself (observed: MapleChrono
                    # 'mcb' occasionally returns an unsat core containing a literal RC2 never assumed ->
                    # KeyError in RC2.get_core, not reproducible run to run).  An engine RC2 cannot drive on
                    # this input is not a usable engine in the sense of the property: recorded, not judged.
                    bump('engine_failures_inside_pysat', p.lower())
                    cols[p] = None
                    continue
                cols[p] = ('EXC', type(e).__name__, str(e)[:150] + where)
        refname = 'z3' if system != 'c-inference' else 'rc2'
        ref = cols[refname]
        if isinstance(ref, tuple):
            # the reference back-end failed: compare against the first that answered
            good = [p for p in cols if cols[p] is not None and not isinstance(cols[p], tuple)]
            if not good:
                res['inconclusive'].append('%s %s: every back-end raised: %s' % (system, mode, ref[1:]))
                continue
            refname = good[0]
            ref = cols[refname]
        for p, col in cols.items():
            if p == refname or col is None:
                continue
            bump('backends_compared')
            bump('backend', p.lower())
            res['evals'] += 1
            if isinstance(col, tuple):
                res['violations'].append({
                    'sig': 'backend:%s:%s:%s:exception:%s(while %s answers)' % (system, mode, p.lower(), col[1], refname),
                    'detail': {'base': bdesc, 'queries': [fml.cond_text(*q) for q in qs], 'error': col[2],
                               'reference': ref}})
                continue
            for qi, (x, y) in enumerate(zip(col, ref)):
                if x != y:
                    res['violations'].append({
                        'sig': 'backend:%s:%s:%s-differs-from-%s' % (system, mode, p.lower(), refname),
                        'detail': {'base': bdesc, 'query': fml.cond_text(*qs[qi]),
                                   'answers': {b: (c[qi] if not isinstance(c, tuple) else c[1]) for b, c in cols.items() if c is not None}}})
        anytrue = any(ref)
        for qi in range(len(qs)):
            nt = nontriv_rows[qi] if nontriv_rows is not None else anytrue
            if nt:
                res['nontrivial'].append(h(bdesc, fml.cond_text(*qs[qi]), system, mode))
    res['sample'] = {'base': bdesc, 'mode': mode, 'backends': backends, 'queries': [fml.cond_text(*q) for q in qs[:3]],
                     'unusable_engines_by_calibration': case['unusable']}
    return res

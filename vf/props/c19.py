"""C19: c-revision returns parameters of a ranking that accepts the new conditionals; compilations agree; incremental model = fresh compilation (DESIGN.md section 7, C19)."""
import itertools

from .. import fml, gen, refmodel as rm
from .. import impl
from .opcommon import h

ID = 'C19'
LEVEL = 'exploration'
RULE = ('random prior rankings over 1-4 atoms (also all-zero) x 1-4 revision conditionals (literal and compound, '
        'unfalsifiable / unverifiable ones, duplicates with different indices, arbitrary distinct indices) x '
        'gamma_plus_zero in {T,F} x random fixed-value maps for gamma-/gamma+ x model in {None, CRevisionModel}: '
        'c_revision must not raise; returned values are ints >= 0 and respect fixed values; the revised ranking '
        'k*(w) = k(w) + sum gamma+ of verified + sum gamma- of falsified accepts every revision conditional '
        '(reference acceptance on enumerated worlds); None only if a box search {0..3}^(free parameters) finds no '
        'such parameters; with gamma+ = 0 and no fixed gamma- the gamma- vector is Pareto-minimal (exact, box '
        'below). compile_alt, compile_alt_fast and CRevisionModel.to_compilation agree with a direct '
        'classification of every world as multisets of triples per index; after every step of a random '
        'add/remove history the incremental model equals a fresh compilation. Non-trivial = >= 2 revision '
        'conditionals and a non-constant prior, or a history with a removal; distinct by hash(prior, conditionals, mode).')
ASSUMPTIONS = ['existence of parameters when None is returned is decided inside the box {0..3}^k (k free parameters, k <= 6)',
               'a free gamma+ that does not occur in the returned dict is read as 0 (it is unconstrained)']
TRUSTED = []
FLOOR = {'quick': 400, 'thorough': 4000}
BUDGET = {'quick': 110, 'thorough': 1500}
N = {'quick': 4000, 'thorough': 40000}
REQUIRED = {'quick': {'revisions_returning_parameters': 120, 'revisions_returning_none': 30, 'compilations_compared': 300,
                      'history_steps': 500, 'pareto_minimality_checked': 40},
            'thorough': {'revisions_returning_parameters': 3000, 'revisions_returning_none': 300,
                         'compilations_compared': 3000, 'history_steps': 5000, 'pareto_minimality_checked': 800}}
RECYCLE = 80


def cases(tier, seed):
    return [{'prop': ID, 'seed': seed, 'idx': i, 'kind': ['revision', 'revision', 'revision', 'compile', 'history'][i % 5]}
            for i in range(N[tier])]


def rand_cond(rng, sig):
    r = rng.random()
    lit = lambda: (fml.V(rng.choice(sig)) if rng.random() < 0.6 else fml.Not(fml.V(rng.choice(sig))))
    if r < 0.5:
        return (lit(), lit())
    if r < 0.58:
        A = fml.rand_formula(rng, sig, 1, 0.0)
        return (fml.Or(A, lit()), A)                # unfalsifiable
    if r < 0.64:
        A = fml.rand_formula(rng, sig, 1, 0.0)
        return (fml.Not(A), A)                      # unverifiable
    if r < 0.7:
        return (lit(), fml.TOP)
    return (fml.rand_formula(rng, sig, rng.randint(1, 2), 0.03), fml.rand_formula(rng, sig, rng.randint(0, 2), 0.03))


def classify(sig, conds_by_idx):
    """per world: (set of verified indices, set of falsified indices)"""
    n = len(sig)
    F = fml.full(n)
    tv = {i: fml.tt(A, sig) & fml.tt(B, sig) for i, (B, A) in conds_by_idx.items()}
    tf = {i: fml.tt(A, sig) & ~fml.tt(B, sig) & F for i, (B, A) in conds_by_idx.items()}
    out = {}
    for w in range(1 << n):
        out[w] = ({i for i in tv if (tv[i] >> w) & 1}, {i for i in tf if (tf[i] >> w) & 1})
    return out, tv, tf


def ref_compilation(sig, rw, conds_by_idx):
    cl, _, _ = classify(sig, conds_by_idx)
    vmin = {i: [] for i in conds_by_idx}
    fmin = {i: [] for i in conds_by_idx}
    for w, (acc, rej) in cl.items():
        for i in acc:
            vmin[i].append((rw[w], tuple(sorted(acc - {i})), tuple(sorted(rej))))
        for i in rej:
            fmin[i].append((rw[w], tuple(sorted(acc)), tuple(sorted(rej - {i}))))
    return vmin, fmin


def norm(comp):
    """compilation as {index: sorted multiset of triples} for both sides"""
    out = []
    for side in comp:
        out.append({int(i): sorted((int(t[0]), tuple(sorted(t[1])), tuple(sorted(t[2]))) for t in lst)
                    for i, lst in side.items()})
    return out


def run_case(case):
    from inference.preocf import PreOCF
    from inference.c_revision import c_revision, compile_alt, compile_alt_fast
    from inference.c_revision_model import CRevisionModel
    rng = gen.rng_for(case['seed'], ID, case['idx'])
    kind = case['kind']
    res = {'evals': 0, 'nontrivial': [], 'violations': [], 'inconclusive': [], 'counters': {}}
    cnt = res['counters']

    def bump(k, n=1):
        cnt[k] = cnt.get(k, 0) + n
    n = rng.choice([1, 2, 2, 3, 3, 3, 4])
    sig = gen.NAMES[:n]
    shape = rng.choice(['zero', 'small', 'small', 'ties', 'gaps'])
    rl = [0 if shape == 'zero' else rng.randint(0, 3) if shape == 'small' else rng.choice([0, 1]) if shape == 'ties'
          else rng.choice([0, 2, 5]) for _ in range(1 << n)]
    if shape != 'zero' and min(rl) > 0:
        rl[rng.randrange(len(rl))] = 0
    ranks = {fml.world_str(w, sig): rl[w] for w in range(1 << n)}
    rw = {w: rl[w] for w in range(1 << n)}
    k = rng.choice([1, 2, 2, 3, 3, 4]) if kind != 'history' else rng.randint(2, 5)
    idxs = list(range(1, k + 1)) if rng.random() < 0.6 else rng.sample(range(0, 30), k)
    cl = [rand_cond(rng, sig) for _ in range(k)]
    if k >= 2 and rng.random() < 0.1:
        cl[1] = cl[0]                                 # duplicate under another index
    elif k >= 2 and n >= 2 and rng.random() < 0.15:
        t1, t2 = gen.deep_twins(rng, sig, [])         # two conditionals identical down to nesting depth >= 6
        cl[0], cl[1] = t1, t2
    cbi = dict(zip(idxs, cl))
    desc = {'signature': sig, 'prior': ranks if n <= 3 else rl, 'conditionals': {i: fml.cond_text(*c) for i, c in cbi.items()}}

    def mkconds(which=None):
        out = []
        for i in (which if which is not None else idxs):
            c = impl.mk_cond(*cbi[i])
            c.index = i
            out.append(c)
        return out

    def viol(sig_, **d):
        d['input'] = desc
        res['violations'].append({'sig': 'crev:' + sig_, 'detail': d})

    prior_kind = 'custom'
    if rng.random() < 0.25 and n >= 2:
        # a lazily ranked prior (System Z or c-representation of a generated base): no rank computed yet
        for _ in range(20):
            ps, pc, _ = gen.gen_base(rng, 'strong', family='rand', nat=n, ncond=rng.randint(1, 4))
            if list(ps) == list(sig):
                break
        else:
            pc = None
        if pc is not None:
            prior_kind = rng.choice(['system-z', 'c-rep'])
            try:
                pr = (PreOCF.init_system_z(impl.mk_bb(sig, pc)) if prior_kind == 'system-z'
                      else PreOCF.init_random_min_c_rep(impl.mk_bb(sig, pc)))
                full = pr.compute_all_ranks()
                ranks = dict(full)
                rl = [ranks[fml.world_str(w, sig)] for w in range(1 << n)]
                rw = {w: rl[w] for w in range(1 << n)}
                shape = 'lazy-' + prior_kind
                desc['prior'] = {'kind': prior_kind, 'base': [fml.cond_text(*x) for x in pc], 'ranks': ranks if n <= 3 else rl}
                bump('lazily_ranked_priors')
            except Exception as e:
                prior_kind = 'custom'

    def mkocf():
        if prior_kind == 'system-z':
            return PreOCF.init_system_z(impl.mk_bb(sig, pc))
        if prior_kind == 'c-rep':
            return PreOCF.init_random_min_c_rep(impl.mk_bb(sig, pc))
        return PreOCF.init_custom(dict(ranks), None, list(sig))

    if kind == 'compile':
        ref = norm(ref_compilation(sig, rw, cbi))
        for name, fn in (('compile_alt', lambda: compile_alt(mkocf(), mkconds())),
                         ('compile_alt_fast', lambda: compile_alt_fast(mkocf(), mkconds())),
                         ('CRevisionModel.to_compilation', lambda: CRevisionModel(mkocf(), mkconds()).to_compilation())):
            try:
                got = norm(fn())
            except Exception as e:
                viol('compilation-raised:%s:%s' % (name, type(e).__name__), error=str(e)[:200])
                continue
            res['evals'] += 1
            bump('compilations_compared')
            if got != ref:
                side = 0 if got[0] != ref[0] else 1
                bad = [i for i in ref[side] if got[side].get(i) != ref[side][i]] or list(got[side])
                viol('compilation-differs:%s' % name, side='verifying' if side == 0 else 'falsifying', index=bad[0],
                     got=got[side].get(bad[0]), expected=ref[side].get(bad[0]))
        if k >= 2 and len(set(rl)) > 1:
            res['nontrivial'].append(h(desc, 'compile'))
        res['sample'] = dict(desc, kind=kind)
        return res

    if kind == 'history':
        o = mkocf()
        present = []
        m = CRevisionModel(o, [])
        removed_once = False
        ever_removed = set()
        steps = []
        total_steps = rng.randint(5, 12)
        for nstep in range(total_steps):
            absent = [i for i in idxs if i not in present]
            r = rng.random()
            if (r < 0.5 and absent) or not present:
                i = rng.choice(absent)
                if i in ever_removed and rng.random() < 0.6:
                    cbi[i] = rand_cond(rng, sig)          # the index is reused for ANOTHER conditional
                    desc['conditionals'][i] = fml.cond_text(*cbi[i])
                    steps.append('add %d as %s' % (i, fml.cond_text(*cbi[i])))
                    bump('indices_reused_for_another_conditional')
                else:
                    steps.append('add %d' % i)
                m.add_conditional(mkconds([i])[0])
                present.append(i)
            elif r < 0.9:
                i = rng.choice(present)
                m.remove_conditional(i)
                present.remove(i)
                ever_removed.add(i)
                removed_once = True
                steps.append('remove %d' % i)
            else:
                i = rng.choice(absent) if absent else 99
                m.remove_conditional(i)                # removing an absent index is a no-op
                steps.append('remove-absent %d' % i)
            bump('history_steps')
            if rng.random() < 0.45 and nstep < total_steps - 1:
                continue                  # the model is not compiled after every step
            res['evals'] += 1
            bump('history_compilations_compared')
            try:
                got = norm(m.to_compilation())
            except Exception as e:
                viol('history:to_compilation-raised:%s' % type(e).__name__, steps=steps, error=str(e)[:200])
                break
            ref = norm(ref_compilation(sig, rw, {i: cbi[i] for i in present}))
            if got != ref:
                viol('history:incremental-model-differs-from-fresh-compilation:%s' % steps[-1].split()[0], steps=steps,
                     got=got, expected=ref)
                break
        if removed_once:
            res['nontrivial'].append(h(desc, steps))
        res['sample'] = dict(desc, kind=kind, steps=steps)
        return res

    # ---- revision
    gpz = rng.random() < 0.5
    fgm, fgp = {}, {}
    r = rng.random()
    if r < 0.25:
        for i in rng.sample(idxs, rng.randint(1, len(idxs))):
            fgm[i] = rng.randint(0, 3)
    elif r < 0.45 and not gpz:
        for i in rng.sample(idxs, rng.randint(1, len(idxs))):
            fgp[i] = rng.randint(0, 2)
    use_model = rng.random() < 0.3
    modetag = 'gamma+%s%s%s' % ('=0' if gpz else '-free', ',fixed-gamma-' if fgm else '', ',fixed-gamma+' if fgp else '')
    desc.update(gamma_plus_zero=gpz, fixed_gamma_minus=fgm, fixed_gamma_plus=fgp, incremental_model=use_model)
    world_cl, tv, tf = classify(sig, cbi)
    # the recorded finding (fixed values not substituted inside the per-world sums) can only manifest when
    # a fixed index occurs as an OTHER index in some world's triple, i.e. some world verifies/falsifies a
    # fixed conditional together with another one; otherwise the mode tag says so and nothing is masked
    fixed_idx = set(fgm) | set(fgp)
    if fixed_idx and not any((acc | rej) & fixed_idx and len(acc | rej) >= 2 for acc, rej in world_cl.values()):
        modetag += ',fixed-index-isolated'

    def revised(gm, gp):
        return {w: rw[w] + sum(gp[i] for i in acc) + sum(gm[i] for i in rej) for w, (acc, rej) in world_cl.items()}

    def ok_params(gm, gp):
        kk = revised(gm, gp)
        return all(rm.accepts(kk, tv[i], tf[i]) for i in idxs)
    try:
        o = mkocf()
        kw = dict(gamma_plus_zero=gpz)
        if fgm:
            kw['fixed_gamma_minus'] = dict(fgm)
        if fgp:
            kw['fixed_gamma_plus'] = dict(fgp)
        if use_model:
            kw['model'] = CRevisionModel(o, mkconds())
        out = c_revision(o, mkconds(), **kw)
    except Exception as e:
        if type(e).__name__ == 'SoftTimeout':
            raise
        viol('c_revision-raised:%s:%s' % (type(e).__name__, modetag), error=str(e)[:200])
        return res
    res['evals'] += 1
    free_m = [i for i in idxs if i not in fgm]
    free_p = [] if gpz else [i for i in idxs if i not in fgp]
    if out is None:
        bump('revisions_returning_none')
        # box search for existing parameters
        nfree = len(free_m) + len(free_p)
        U = 3 if nfree <= 6 else 2
        found = None
        if (U + 1) ** nfree <= 70000:
            for vals in itertools.product(range(U + 1), repeat=nfree):
                gm = dict(fgm)
                gm.update(zip(free_m, vals[:len(free_m)]))
                gp = {i: fgp.get(i, 0) for i in idxs}
                gp.update(zip(free_p, vals[len(free_m):]))
                if ok_params(gm, gp):
                    found = (gm, gp)
                    break
            if found:
                unf = [i for i in idxs if not tf[i]]
                viol('returns-None-although-parameters-exist:%s%s' % (modetag, ':unfalsifiable-conditional' if unf else ''),
                     parameters={'gamma-': found[0], 'gamma+': found[1]})
        else:
            bump('none_results_outside_box_budget')
    else:
        bump('revisions_returning_parameters')
        gm, gp = {}, {}
        bad = False
        for i in idxs:
            vm = out.get('gamma-_%d' % i)
            vp = out.get('gamma+_%d' % i, 0)
            if vm is None and i in free_m:
                vm = 0            # unconstrained
            for nm, v in (('gamma-', vm), ('gamma+', vp)):
                if not isinstance(v, int) or isinstance(v, bool) or v < 0:
                    viol('parameter-not-a-nonnegative-int:%s' % modetag, name='%s_%d' % (nm, i), value=str(v), returned=str(out)[:300])
                    bad = True
            gm[i], gp[i] = vm, vp
        if not bad:
            for i, v in fgm.items():
                if gm[i] != v:
                    viol('fixed-gamma-minus-not-respected:%s' % modetag, index=i, got=gm[i], fixed=v)
            for i, v in fgp.items():
                if gp[i] != v:
                    viol('fixed-gamma-plus-not-respected:%s' % modetag, index=i, got=gp[i], fixed=v)
            if gpz and any(gp[i] != fgp.get(i, 0) for i in idxs):
                viol('gamma-plus-not-zero:%s' % modetag, got=gp)
            if not ok_params(gm, gp):
                kk = revised(gm, gp)
                rej = [i for i in idxs if not rm.accepts(kk, tv[i], tf[i])]
                viol('revised-ranking-does-not-accept-revision-conditional:%s' % modetag, parameters={'gamma-': gm, 'gamma+': gp},
                     not_accepted=[fml.cond_text(*cbi[i]) for i in rej])
            elif gpz and not fgm and not fgp:
                # exact Pareto minimality of gamma-
                res['evals'] += 1
                bump('pareto_minimality_checked')
                zero = {i: 0 for i in idxs}
                vec = tuple(gm[i] for i in idxs)
                smaller = None
                if all(v <= 8 for v in vec):
                    for y in itertools.product(*[range(v + 1) for v in vec]):
                        if y != vec and ok_params(dict(zip(idxs, y)), zero):
                            smaller = y
                            break
                    if smaller is not None:
                        viol('gamma-minus-not-pareto-minimal%s' % (':all-zero-prior' if shape == 'zero' else ''),
                             got=list(vec), smaller=list(smaller))
    if k >= 2 and len(set(rl)) > 1:
        res['nontrivial'].append(h(desc))
    res['sample'] = dict(desc, kind=kind, returned=None if out is None else {k_: v for k_, v in out.items() if k_.startswith('gamma')})
    return res

"""C18: ranking-function operations obey their defining laws for every ranking (DESIGN.md section 7, C18)."""
from .. import fml, gen, refmodel as rm
from .. import impl
from .opcommon import h, base_desc

ID = 'C18'
LEVEL = 'exploration'
RULE = ('random ASYMMETRIC total rank assignments over 1-6 atoms (gaps, many ties, a single rank-0 world, large '
        'ranks) via PreOCF.init_custom, plus System-Z and c-representation objects of generated bases (ranks '
        'completed first): formula_rank = least rank of the models / None if none (formulas of depth <= 3 incl. '
        'unsatisfiable ones and constants); conditional_acceptance = [rank(A&B) defined and < rank(A&!B), or the '
        'latter undefined]; marginalize(proper subset) = least rank of the extensions per remaining world and '
        'ranks of formulas over the remaining atoms preserved; compute_conditionalization / '
        'conditionalize_existing_ranks = exactly the models with their ranks; tpo2ranks(ranks2tpo(r), f) is '
        'order-isomorphic to r for strictly increasing f and equals r when layers are numbered by their ranks. '
        'Non-trivial = ranking with >= 3 distinct ranks and a non-literal formula; distinct by hash(ranks, formula).')
ASSUMPTIONS = ['rankings are total (every world ranked) when the laws are evaluated']
TRUSTED = []
FLOOR = {'quick': 600, 'thorough': 6000}
BUDGET = {'quick': 100, 'thorough': 1200}
N = {'quick': 1800, 'thorough': 20000}
REQUIRED = {'quick': {'formula_ranks': 1500, 'acceptances': 1000, 'marginalizations': 500, 'conditionalizations': 500,
                      'tpo_roundtrips': 250, 'unsatisfiable_formulas': 50},
            'thorough': {'formula_ranks': 50000, 'acceptances': 30000, 'marginalizations': 15000,
                         'conditionalizations': 15000, 'tpo_roundtrips': 8000, 'unsatisfiable_formulas': 1000}}


def cases(tier, seed):
    return [{'prop': ID, 'seed': seed, 'idx': i, 'kind': ['custom', 'custom', 'custom', 'system-z', 'c-rep'][i % 5]}
            for i in range(N[tier])]


def rand_ranks(rng, n):
    W = 1 << n
    shape = rng.choice(['uniform', 'ties', 'single-zero', 'gaps', 'big', 'binary'])
    out = []
    for w in range(W):
        if shape == 'uniform':
            r = rng.randint(0, W)
        elif shape == 'ties':
            r = rng.choice([0, 0, 1, 1, 2])
        elif shape == 'single-zero':
            r = rng.randint(1, 4)
        elif shape == 'gaps':
            r = rng.choice([0, 3, 7, 20])
        elif shape == 'big':
            r = rng.randint(0, 10 ** 6)
        else:
            r = rng.choice([0, 1])
        out.append(r)
    if shape == 'single-zero' or min(out) > 0 and rng.random() < 0.7:
        out[rng.randrange(W)] = 0
    return out, shape


def run_case(case):
    from inference.preocf import PreOCF, ranks2tpo, tpo2ranks
    rng = gen.rng_for(case['seed'], ID, case['idx'])
    kind = case['kind']
    res = {'evals': 0, 'nontrivial': [], 'violations': [], 'inconclusive': [], 'counters': {}}
    cnt = res['counters']

    def bump(k, n=1):
        cnt[k] = cnt.get(k, 0) + n
    desc = {'kind': kind}
    if kind == 'custom':
        n = rng.choice([1, 2, 2, 3, 3, 3, 4, 4, 5, 6])
        sig = gen.NAMES[:n] if rng.random() < 0.7 else rng.sample(['x1', 'A', 'q_r', 'b', 'zz', 'k-1', 'a'], n) if n <= 6 else gen.NAMES[:n]
        rl, shape = rand_ranks(rng, n)
        ranks = {fml.world_str(w, sig): rl[w] for w in range(1 << n)}
        keys = list(ranks)
        if rng.random() < 0.3:
            rng.shuffle(keys)
            ranks = {k: ranks[k] for k in keys}      # dict order is presentation
        grown = False
        if rng.random() < 0.15 and n >= 2:
            # the explicit signature must win over the signature of a belief base passed along
            other = list(sig)
            rng.shuffle(other)
            if rng.random() < 0.5:
                other = other[:-1]
            bbx = impl.mk_bb(other, [(fml.V(other[0]), fml.TOP)])
            o = PreOCF.init_custom(dict(ranks), bbx, list(sig))
            bump('custom_with_belief_base_and_explicit_signature')
        elif rng.random() < 0.12 and n >= 2:
            # a ranking that is filled in later: formulas are asked while some worlds are still missing, then
            # the remaining worlds are added in place and the same formulas are asked again
            keys_now = rng.sample(list(ranks), max(1, len(ranks) // 2))
            o = PreOCF.init_custom({k: ranks[k] for k in keys_now}, None, list(sig))
            for _ in range(3):
                f0 = fml.rand_formula(rng, sig, rng.randint(0, 2), 0.0)
                try:
                    o.formula_rank(fml.to_pysmt(f0))
                    o.conditional_acceptance(impl.mk_cond(f0, fml.rand_formula(rng, sig, 1, 0.0)))
                except Exception:
                    pass
            for k in ranks:
                o.ranks[k] = ranks[k]
            grown = True
            bump('rankings_completed_in_place')
        else:
            o = PreOCF.init_custom(dict(ranks), None, list(sig))
        desc.update(signature=sig, ranks=ranks if n <= 3 else '%d worlds, shape %s' % (1 << n, shape))
    else:
        for _ in range(30):
            sig, conds, _ = gen.gen_base(rng, 'strong', **(dict(family='rand', nat=rng.randint(2, 4), ncond=rng.randint(1, 5)) if kind == 'c-rep' else {}))
            if len(sig) <= 5:
                break
        n = len(sig)
        try:
            o = (PreOCF.init_system_z(impl.mk_bb(sig, conds)) if kind == 'system-z'
                 else PreOCF.init_random_min_c_rep(impl.mk_bb(sig, conds)))
            o.compute_all_ranks()
        except Exception as e:
            res['inconclusive'].append('%s object construction raised %s: %s' % (kind, type(e).__name__, str(e)[:100]))
            return res
        ranks = dict(o.ranks)
        desc.update(base=base_desc(sig, conds))
    rw = {w: ranks[fml.world_str(w, sig)] for w in range(1 << n)}
    distinct = len(set(rw.values()))

    def viol(sig_, **d):
        d.update(object=desc)
        res['violations'].append({'sig': 'ocf:%s:%s' % (sig_, kind), 'detail': d})

    # ---- calls that FAIL (bad argument; a world whose rank is still missing) must leave the object as it was:
    # everything below is asked on the same object afterwards
    if rng.random() < 0.3:
        from pysmt.shortcuts import Int as _Int, Plus as _Plus, Symbol as _Sym
        from pysmt.typing import INT as _INT
        bad_args = [None, 'a,b', _Int(3), _Plus(_Sym('vf_int_%d' % rng.randint(0, 3), _INT), _Int(1))]
        for _ in range(rng.randint(1, 3)):
            arg = rng.choice(bad_args)
            meth = rng.choice(['formula_rank', 'compute_conditionalization', 'conditionalize_existing_ranks'])
            try:
                getattr(o, meth)(arg)
                bump('bad_argument_calls_that_returned')
            except Exception:
                bump('failed_calls_injected')
        if kind == 'custom' and rng.random() < 0.5:
            # a world without a rank: asking a formula it satisfies fails; then the rank is supplied
            w0 = rng.choice(list(ranks))
            keep = o.ranks[w0]
            o.ranks[w0] = None
            lit = fml.V(sig[0]) if w0[0] == '1' else fml.Not(fml.V(sig[0]))
            for meth, arg in (('formula_rank', fml.to_pysmt(lit)), ('conditional_acceptance', impl.mk_cond(lit, fml.TOP))):
                try:
                    getattr(o, meth)(arg)
                    bump('calls_on_unranked_world_that_returned')
                except Exception:
                    bump('failed_calls_injected')
            o.ranks[w0] = keep

    # ---- formula ranks / acceptance
    for _ in range(8):
        f = fml.rand_formula(rng, sig, rng.randint(0, 3), 0.06)
        if rng.random() < 0.08:
            a = fml.rand_formula(rng, sig, 1, 0.0)
            f = fml.And(f, fml.And(a, fml.Not(a)))
        t = fml.tt(f, sig)
        exp = rm.formula_rank(rw, t)
        if exp is None:
            bump('unsatisfiable_formulas')
        try:
            got = o.formula_rank(fml.to_pysmt(f))
        except Exception as e:
            viol('formula_rank-raised:%s' % type(e).__name__, formula=fml.to_text(f), error=str(e)[:150])
            continue
        res['evals'] += 1
        bump('formula_ranks')
        if got != exp:
            viol('formula_rank:%s' % ('unsatisfiable-formula' if exp is None else 'not-the-minimum'),
                 formula=fml.to_text(f), got=got, expected=exp)
        if distinct >= 3 and not fml.is_literalish(f):
            res['nontrivial'].append(h(desc, fml.to_text(f)))
    for _ in range(5):
        B = fml.rand_formula(rng, sig, rng.randint(0, 2), 0.05)
        A = fml.rand_formula(rng, sig, rng.randint(0, 2), 0.05)
        r = rng.random()
        if r < 0.1:
            B = fml.Not(A)             # V empty
        elif r < 0.2:
            B = fml.Or(A, B)           # F empty
        elif r < 0.25:
            A = fml.And(A, fml.Not(A))
        a, b = fml.tt(A, sig), fml.tt(B, sig)
        exp = rm.accepts(rw, a & b, a & ~b & fml.full(n))
        try:
            got = o.conditional_acceptance(impl.mk_cond(B, A))
        except Exception as e:
            viol('conditional_acceptance-raised:%s' % type(e).__name__, conditional=fml.cond_text(B, A), error=str(e)[:150])
            continue
        res['evals'] += 1
        bump('acceptances')
        if got != exp:
            viol('acceptance(impl=%s,def=%s)%s' % (got, exp, ':V-empty' if not (a & b) else ':F-empty' if not (a & ~b & fml.full(n)) else ''),
                 conditional=fml.cond_text(B, A), rank_AB=rm.formula_rank(rw, a & b),
                 rank_AnotB=rm.formula_rank(rw, a & ~b & fml.full(n)))

    # ---- the same object after its ranks were edited in place: the laws hold for the NEW ranking
    if kind == 'custom' and rng.random() < 0.4:
        asked = []
        for _ in range(4):
            f = fml.rand_formula(rng, sig, rng.randint(0, 2), 0.04)
            try:
                o.formula_rank(fml.to_pysmt(f))
            except Exception:
                pass
            asked.append(f)
        ws = list(ranks)
        for w in rng.sample(ws, max(1, len(ws) // 3)):
            newr = rng.randint(0, 6)
            o.ranks[w] = newr
            ranks[w] = newr
        rw = {w: ranks[fml.world_str(w, sig)] for w in range(1 << n)}
        bump('rankings_edited_in_place')
        for f in asked:
            exp = rm.formula_rank(rw, fml.tt(f, sig))
            try:
                got = o.formula_rank(fml.to_pysmt(f))
            except Exception as e:
                viol('formula_rank-raised-after-in-place-edit:%s' % type(e).__name__, formula=fml.to_text(f))
                continue
            res['evals'] += 1
            if got != exp:
                viol('formula_rank:stale-after-in-place-rank-edit', formula=fml.to_text(f), got=got, expected=exp)
        B, A = fml.rand_formula(rng, sig, 1, 0.0), fml.rand_formula(rng, sig, 1, 0.0)
        a, b = fml.tt(A, sig), fml.tt(B, sig)
        try:
            if o.conditional_acceptance(impl.mk_cond(B, A)) != rm.accepts(rw, a & b, a & ~b & fml.full(n)):
                viol('acceptance:wrong-after-in-place-rank-edit', conditional=fml.cond_text(B, A))
        except Exception as e:
            viol('conditional_acceptance-raised-after-in-place-edit:%s' % type(e).__name__)
        distinct = len(set(rw.values()))

    # ---- marginalisation
    if n >= 2:
        for _ in range(3):
            k = rng.randint(1, n - 1)
            remove = rng.sample(sig, k)
            nsig, exp = rm.marginalize(ranks, sig, set(remove))
            try:
                mo = o.marginalize(list(remove))
            except Exception as e:
                viol('marginalize-raised:%s' % type(e).__name__, remove=remove, error=str(e)[:150])
                continue
            res['evals'] += 1
            bump('marginalizations')
            if list(mo.signature) != nsig:
                viol('marginalize:signature', remove=remove, got=list(mo.signature), expected=nsig)
                continue
            got = {w: r for w, r in mo.ranks.items()}
            if got != exp:
                bad = [w for w in exp if got.get(w) != exp[w]] or [w for w in got if w not in exp]
                viol('marginalize:world-rank-not-min-of-extensions', remove=remove, world=bad[0],
                     got=got.get(bad[0]), expected=exp.get(bad[0]))
                continue
            f = fml.rand_formula(rng, nsig, 2, 0.0)
            try:
                r1 = mo.formula_rank(fml.to_pysmt(f))
                r0 = o.formula_rank(fml.to_pysmt(f))
                if r1 != r0:
                    viol('marginalize:formula-rank-not-preserved', remove=remove, formula=fml.to_text(f),
                         before=r0, after=r1)
            except Exception as e:
                viol('marginalize:formula_rank-raised:%s' % type(e).__name__, error=str(e)[:150])

    # ---- conditionalisation
    for _ in range(3):
        f = fml.rand_formula(rng, sig, rng.randint(0, 2), 0.05)
        t = fml.tt(f, sig)
        exp = {fml.world_str(w, sig): rw[w] for w in fml.bits(t)}
        for name in ('compute_conditionalization', 'conditionalize_existing_ranks'):
            try:
                got = getattr(o, name)(fml.to_pysmt(f))
            except Exception as e:
                viol('%s-raised:%s' % (name, type(e).__name__), formula=fml.to_text(f), error=str(e)[:150])
                continue
            res['evals'] += 1
            bump('conditionalizations')
            if dict(got) != exp:
                viol('%s:not-exactly-the-models-with-their-ranks' % name, formula=fml.to_text(f),
                     got=dict(got) if n <= 3 else len(got), expected=exp if n <= 3 else len(exp))

    # ---- tpo round trip
    try:
        tpo = ranks2tpo(dict(ranks))
        res['evals'] += 1
        bump('tpo_roundtrips')
        levels = sorted(set(ranks.values()))
        if [set(l) for l in tpo] != [{w for w, r in ranks.items() if r == lv} for lv in levels]:
            viol('ranks2tpo:layers-not-grouped-ascending-by-rank', tpo=[sorted(l) for l in tpo][:4])
        back = tpo2ranks(tpo, lambda i: levels[i])
        if dict(back) != dict(ranks):
            viol('tpo2ranks:rank-numbering-does-not-reproduce-ranks')
        a, b = rng.randint(1, 4), rng.randint(0, 5)
        back2 = tpo2ranks(tpo, lambda i: a * i + b)
        ws = list(ranks)
        for _ in range(40):
            w1, w2 = rng.choice(ws), rng.choice(ws)
            if (ranks[w1] < ranks[w2]) != (back2[w1] < back2[w2]) or (ranks[w1] == ranks[w2]) != (back2[w1] == back2[w2]):
                viol('tpo2ranks:order-not-preserved', w1=w1, w2=w2)
                break
    except Exception as e:
        viol('tpo-raised:%s' % type(e).__name__, error=str(e)[:150])
    res['sample'] = dict(desc, distinct_ranks=distinct)
    return res

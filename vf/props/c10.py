"""C10: the parser yields exactly the documented meaning, or rejects (DESIGN.md section 7, C10)."""
import itertools

from .. import fml, gen, clsyntax
from .. import impl  # noqa: F401
from ..fml import V, Not, And, Or, TOP, BOT
from .opcommon import h

ID = 'C10'
LEVEL = 'exploration'
RULE = ('(a) generated formula ASTs (depth <= 4, constants) printed with minimal / full / noisy parentheses, '
        'whitespace, // and /* */ comments -> parse_formula: the returned node, read back structurally, must '
        'have the truth table of the AST; (b) EXHAUSTIVE: every formula of depth <= 2 over {a, b, Top, Bottom} in '
        'minimal-parentheses form; (c) generated bases / query lists as text (CRLF, comments, blank lines) -> '
        'parse_belief_base / parse_queries: signature in order, keys 1..n in file order, consequent before and '
        'antecedent after the bar (truth tables), str(conditional) re-parses to the same truth tables; '
        '(d) malformed variants by token-level mutation (dropped / duplicated / swapped / inserted tokens, '
        'trailing tokens, illegal characters, unbalanced parentheses, missing separators/newlines): every text '
        'that an independent recursive-descent recogniser of CKB.g4 rejects must raise; every text it accepts '
        'must parse. Non-trivial = formula mixing >= 2 different binary operators or a negation over a binary '
        'operator, or a malformed text; distinct by hash(text).')
ASSUMPTIONS = ['the independent recogniser vf/clsyntax.py is the reference for membership (cross-checked against '
               'ANTLR: every generated well-formed text must be accepted by both)',
               'a formula text followed only by newlines is treated as well formed']
TRUSTED = ['structural read-back of pysmt nodes (no solver)']
FLOOR = {'quick': 3000, 'thorough': 30000}
BUDGET = {'quick': 90, 'thorough': 900}
N = {'quick': 4000, 'thorough': 60000}
REQUIRED = {'quick': {'malformed_rejected': 1000, 'wellformed_formulas': 2000, 'bases_parsed': 200, 'exhaustive_formulas': 3000},
            'thorough': {'malformed_rejected': 15000, 'wellformed_formulas': 30000, 'bases_parsed': 3000, 'exhaustive_formulas': 3000}}

LEAVES = [V('a'), V('b'), TOP, BOT]


def all_depth2():
    d0 = list(LEAVES)
    d1 = d0 + [Not(x) for x in d0] + [(op, x, y) for op in ('and', 'or') for x in d0 for y in d0]
    d2 = d1 + [Not(x) for x in d1 if x not in d0] + [(op, x, y) for op in ('and', 'or') for x in d1 for y in d1
                                                         if not (x in d0 and y in d0)]
    return d2


EXH = None


def cases(tier, seed):
    n = N[tier]
    out = []
    nchunks = 40
    for i in range(n):
        if i < nchunks:
            out.append({'prop': ID, 'seed': seed, 'idx': i, 'kind': 'exhaustive', 'chunk': i, 'of': nchunks})
        else:
            out.append({'prop': ID, 'seed': seed, 'idx': i,
                        'kind': ['formula', 'base', 'malformed-formula', 'malformed-base', 'queries'][i % 5]})
    return out


def nontrivial_formula(f):
    ops = set()
    neg_over_bin = [False]

    def go(g):
        if g[0] in ('and', 'or'):
            ops.add(g[0])
        if g[0] == 'not' and g[1][0] in ('and', 'or'):
            neg_over_bin[0] = True
        for x in g[1:]:
            if isinstance(x, tuple):
                go(x)
    go(f)
    return len(ops) >= 2 or neg_over_bin[0]


def noise(rng, text):
    """insert comments / whitespace between tokens without changing the token stream"""
    out = []
    for m in clsyntax.TOK.finditer(text):
        out.append(m.group())
        r = rng.random()
        if m.lastgroup in ('P', 'ID') and r < 0.08:
            out.append(' /* %s */ ' % rng.choice(['x', 'a,b', '(', '}', 'signature', '!!']))
        elif m.lastgroup in ('P', 'ID') and r < 0.2:
            out.append(' ' * rng.randint(1, 3) + ('\t' if rng.random() < 0.2 else ''))
        elif m.lastgroup == 'NL' and r < 0.15:
            out.append('// comment ( | ) { \n' if rng.random() < 0.5 else '   ')
    return ''.join(out)


MUT_TOKENS = ['a', 'b', ',', ';', '!', '(', ')', 'Top']
ILLEGAL = ['#', '@', '$', '%', '&', '*', '=', '?', '[', ']', '~', '^', '"', "'", '/', '\\', '<', '>', '.', ':', '+', '1']


def mutate_tokens(rng, toks):
    toks = list(toks)
    k = rng.randrange(7)
    if k == 0 and len(toks) > 1:
        del toks[rng.randrange(len(toks))]
    elif k == 1:
        i = rng.randrange(len(toks))
        toks.insert(i, toks[i])
    elif k == 2 and len(toks) > 1:
        i = rng.randrange(len(toks) - 1)
        toks[i], toks[i + 1] = toks[i + 1], toks[i]
    elif k == 3:
        toks.insert(rng.randrange(len(toks) + 1), rng.choice(MUT_TOKENS))
    elif k == 4:
        toks += rng.choice([['b'], [')'], ['!', 'b'], ['a', 'b'], ['('], [',']])
    elif k == 5:
        toks.insert(rng.randrange(len(toks) + 1), rng.choice(ILLEGAL))
    else:
        toks[rng.randrange(len(toks))] = rng.choice(MUT_TOKENS)
    return toks


def run_case(case):
    from parser.Wrappers import parse_formula, parse_belief_base, parse_queries
    rng = gen.rng_for(case['seed'], ID, case['idx'])
    kind = case['kind']
    res = {'evals': 0, 'nontrivial': [], 'violations': [], 'inconclusive': [], 'counters': {}}
    cnt = res['counters']

    def bump(k, n=1):
        cnt[k] = cnt.get(k, 0) + n

    def viol(sig, **detail):
        res['violations'].append({'sig': sig, 'detail': detail})

    def check_formula(f, text, tag):
        res['evals'] += 1
        try:
            node = parse_formula(text)
        except Exception as e:
            viol('parser:%s:well-formed-formula-rejected' % tag, text=text, error=str(e)[:150])
            return
        try:
            back = fml.from_pysmt(node)
        except Exception as e:
            viol('parser:%s:unreadable-node' % tag, text=text, error=str(e)[:150])
            return
        at = sorted(fml.atoms(f) | fml.atoms(back))
        if fml.tt(f, at) != fml.tt(back, at):
            viol('parser:%s:meaning-differs' % tag, text=text, expected=fml.to_text(f), got=fml.to_text(back))
        if nontrivial_formula(f):
            res['nontrivial'].append(h(text))

    def check_rejected(fn, name, text, what):
        res['evals'] += 1
        try:
            r = fn(text)
        except Exception:
            bump('malformed_rejected')
            res['nontrivial'].append(h(name, text))
            return
        desc = str(r) if name == 'parse_formula' else {k: str(c) for k, c in r.conditionals.items()}
        viol('parser:%s:malformed-text-accepted:%s' % (name, what), text=text, returned=desc)

    if kind == 'exhaustive':
        global EXH
        if EXH is None:
            EXH = all_depth2()
        for j in range(case['chunk'], len(EXH), case['of']):
            f = EXH[j]
            check_formula(f, fml.to_text(f, 'min'), 'exhaustive-depth2')
            bump('exhaustive_formulas')
        res['sample'] = {'kind': kind, 'text': fml.to_text(EXH[case['chunk']], 'min'), 'total': len(EXH)}
        return res

    sig = gen.NAMES[:rng.randint(1, 5)] + rng.sample(['A', 'x1', 'a-b', 'a_b', 'Q'], rng.randint(0, 2))
    if kind == 'formula':
        for _ in range(25):
            f = fml.rand_formula(rng, sig, rng.randint(1, 4), 0.08)
            style = rng.choice(['min', 'full', 'noisy'])
            text = fml.to_text(f, style, rng)
            if rng.random() < 0.3:
                text = noise(rng, text)
            assert clsyntax.is_formula(text), text
            check_formula(f, text, 'formula')
            bump('wellformed_formulas')
        res['sample'] = {'kind': kind, 'text': text}
    elif kind in ('base', 'queries'):
        for _ in range(3):
            s, conds = gen.rand_base(rng, nat=min(len(sig), 5), ncond=rng.randint(1, 6), depth=rng.randint(0, 3), p_const=0.06)
            s = sig[:len(s)] if rng.random() < 0.5 else s
            m = dict(zip(gen.NAMES, s))
            conds = [(fml.rename(B, m), fml.rename(A, m)) for (B, A) in conds]
            style = rng.choice(['min', 'full', 'noisy'])
            if kind == 'base':
                name = rng.choice(['kb', 'birds005', 'K_1', 'x-y'])
                text = fml.base_text(s, conds, name, style, rng)
                if rng.random() < 0.3:
                    text = text.replace('\n', '\r\n')
                if rng.random() < 0.4:
                    text = noise(rng, text)
                if rng.random() < 0.3:
                    text = '\n\n' + text + '\n\n'
                assert clsyntax.is_base(text), text
                res['evals'] += 1
                bump('bases_parsed')
                try:
                    if rng.random() < 0.2:
                        # the same text through a file path (file-or-string detection)
                        import os, tempfile
                        fd, fp = tempfile.mkstemp(suffix='.cl', prefix='vfc10_')
                        os.write(fd, text.encode())
                        os.close(fd)
                        try:
                            bb = parse_belief_base(fp)
                        finally:
                            os.remove(fp)
                        bump('bases_parsed_from_file_path')
                    else:
                        bb = parse_belief_base(text)
                except Exception as e:
                    viol('parser:base:well-formed-base-rejected', text=text, error=str(e)[:150])
                    continue
                if list(bb.signature) != list(s):
                    viol('parser:base:signature', text=text, got=list(bb.signature), expected=s)
                if bb.name != name:
                    viol('parser:base:name', text=text, got=bb.name)
                got = bb.conditionals
            else:
                parts = [fml.cond_text(B, A, style, rng) for (B, A) in conds]
                sep = ',\n' if rng.random() < 0.3 else ','
                if len(parts) >= 2 and rng.random() < 0.25:
                    # two block comments in one text (everything between them must survive)
                    parts[0] = parts[0] + ' /* one */ '
                    parts[1] = ' /* two ( | */ ' + parts[1]
                    bump('query_lists_with_two_block_comments')
                text = sep.join(parts)
                layout = 'bare'
                if rng.random() < 0.25:
                    # the same list in the full 'signature ... conditionals name{...}' layout
                    text = fml.base_text(s, conds, 'queries', style, rng)
                    layout = 'full'
                    bump('query_lists_in_full_layout')
                if rng.random() < 0.35:
                    text = noise(rng, text)
                if layout == 'full':
                    assert clsyntax.is_base(text), text
                    res['evals'] += 1
                    bump('query_lists_parsed')
                    try:
                        got = parse_queries(text).conditionals
                    except Exception as e:
                        viol('parser:queries:well-formed-full-layout-rejected', text=text, error=str(e)[:150])
                        continue
                    if list(got.keys()) != list(range(1, len(conds) + 1)):
                        viol('parser:queries:keys:full-layout', text=text, got=list(got.keys()), n=len(conds))
                        continue
                if layout == 'bare':
                    assert clsyntax.is_query_list(text), text
                    res['evals'] += 1
                    bump('query_lists_parsed')
                    try:
                        got = parse_queries(text).conditionals
                    except Exception as e:
                        viol('parser:queries:well-formed-list-rejected', text=text, error=str(e)[:150])
                        continue
            if list(got.keys()) != list(range(1, len(conds) + 1)):
                viol('parser:%s:keys' % kind, text=text, got=list(got.keys()), n=len(conds))
                continue
            for (B, A), c in zip(conds, got.values()):
                try:
                    gb, ga = fml.from_pysmt(c.consequence), fml.from_pysmt(c.antecedence)
                    at = sorted(set(s) | fml.atoms(gb) | fml.atoms(ga))
                    if fml.tt(gb, at) != fml.tt(B, at) or fml.tt(ga, at) != fml.tt(A, at):
                        viol('parser:%s:conditional-meaning-differs' % kind, text=text, expected=fml.cond_text(B, A),
                             got='(%s|%s)' % (fml.to_text(gb), fml.to_text(ga)))
                    # text representation re-parses to an equivalent conditional
                    again = list(parse_queries(str(c)).conditionals.values())
                    if len(again) != 1:
                        viol('parser:%s:text-representation-reparse-count' % kind, text=str(c), n=len(again))
                    else:
                        rb, ra = fml.from_pysmt(again[0].consequence), fml.from_pysmt(again[0].antecedence)
                        if fml.tt(rb, at) != fml.tt(B, at) or fml.tt(ra, at) != fml.tt(A, at):
                            viol('parser:%s:text-representation-not-equivalent' % kind, text=str(c),
                                 expected=fml.cond_text(B, A))
                except Exception as e:
                    viol('parser:%s:conditional-check-raised:%s' % (kind, type(e).__name__), text=text, error=str(e)[:150])
                if nontrivial_formula(B) or nontrivial_formula(A):
                    res['nontrivial'].append(h(text, fml.cond_text(B, A)))
        res['sample'] = {'kind': kind, 'text': text}
    elif kind == 'malformed-formula':
        text = ''
        for _ in range(40):
            f = fml.rand_formula(rng, ['a', 'b', 'c'], rng.randint(0, 3), 0.05)
            base_text = fml.to_text(f, rng.choice(['min', 'full']))
            toks = [m.group() for m in clsyntax.TOK.finditer(base_text) if m.lastgroup in ('ID', 'P')]
            mt = mutate_tokens(rng, toks)
            sep = rng.choice(['', ' ', ' ', '\n'])
            text = sep.join(mt) if sep != '\n' else ' '.join(mt[:len(mt) // 2]) + '\n' + ' '.join(mt[len(mt) // 2:])
            import os
            if os.path.exists(text):
                continue
            if clsyntax.is_formula(text):
                # still in the language: must parse
                res['evals'] += 1
                bump('mutants_still_wellformed')
                try:
                    parse_formula(text)
                except Exception as e:
                    viol('parser:formula:well-formed-mutant-rejected', text=text, error=str(e)[:150])
                continue
            check_rejected(parse_formula, 'parse_formula', text,
                           'prefix-is-a-formula' if any(clsyntax.is_formula(' '.join(mt[:j])) for j in range(1, len(mt))) else 'other')
        res['sample'] = {'kind': kind, 'text': text}
    else:   # malformed-base / malformed query list
        text = ''
        for _ in range(12):
            s, conds = gen.rand_base(rng, nat=3, ncond=rng.randint(1, 4), depth=rng.randint(0, 2), p_const=0.03)
            good = fml.base_text(s, conds, 'kb', 'min')
            k = rng.randrange(9)
            if k == 0:
                text = good + rng.choice(['garbage here', '(a|b)', '}', 'x', '{', 'conditionals', ',', '(a|b),'])
            elif k == 1:
                text = good.replace('),\n(', ')\n(', 1) if '),\n(' in good else good.replace('}', '', 1)
            elif k == 2:
                i = rng.randrange(len(good))
                text = good[:i] + rng.choice(ILLEGAL[:-1]) + good[i:]
            elif k == 3:
                text = good.replace('signature\n', 'signature ', 1)
            elif k == 4:
                text = good.replace('\n\nconditionals', ' conditionals', 1)
            elif k == 5:
                toks = [m.group() for m in clsyntax.TOK.finditer(good) if m.lastgroup in ('ID', 'P', 'NL')]
                i = rng.randrange(len(toks))
                if rng.random() < 0.5:
                    del toks[i]
                else:
                    toks.insert(i, rng.choice(['(', ')', '|', ',', '{', '}', 'a']))
                text = ' '.join(toks)
            elif k == 6:
                text = good.replace('|', ' ', 1)
            elif k == 7 and rng.random() < 0.35:
                # a FILE whose bytes are not valid text (Latin-1 in an otherwise well-formed base): illegal input
                import os, tempfile
                raw = good.encode('ascii', 'ignore')
                i = rng.randrange(len(raw))
                raw = raw[:i] + rng.choice([b'\xac', b'\xfc', b'\xe9', b'\xff']) + raw[i:]
                fd, fp = tempfile.mkstemp(suffix='.cl', prefix='vfc10_')
                os.write(fd, raw)
                os.close(fd)
                try:
                    check_rejected(parse_belief_base, 'parse_belief_base', fp, 'undecodable-bytes-in-file')
                    v = res['violations']
                    if v and v[-1]['detail'].get('text') == fp:
                        v[-1]['detail']['text'] = repr(raw[:200])
                finally:
                    os.remove(fp)
                bump('files_with_undecodable_bytes')
                continue
            elif k == 7:
                # malformed query list
                ql = ','.join(fml.cond_text(B, A, 'min') for (B, A) in conds)
                text = rng.choice([ql + '}' + ql, ql + ')', ql.replace('|', '', 1), ql + ',', '(' + ql, ql + ' x',
                                   ql + ' } \n conditionals \n more { ' + ql,       # a second block smuggled in
                                   ql + '\n}\nconditionals\nkb2{\n' + ql,
                                   ql.replace('),(', ')(', 1) if '),(' in ql else ql + ';'])
                if clsyntax.is_query_list(text):
                    continue
                check_rejected(parse_queries, 'parse_queries', text, 'query-list')
                continue
            else:
                text = good.replace('{', '{{', 1) if rng.random() < 0.5 else good.replace('kb{', '{', 1)
            if clsyntax.is_base(text):
                res['evals'] += 1
                bump('mutants_still_wellformed')
                try:
                    parse_belief_base(text)
                except Exception as e:
                    viol('parser:base:well-formed-mutant-rejected', text=text, error=str(e)[:150])
                continue
            check_rejected(parse_belief_base, 'parse_belief_base', text,
                           'trailing-text' if k == 0 else 'other')
        res['sample'] = {'kind': kind, 'text': text}
    return res

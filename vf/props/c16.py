"""C16: the System Z ranking object equals the Z-ranking, whatever the order of lazy computation, and models the base; facts (DESIGN.md section 7, C16)."""
from .. import fml, gen, refmodel as rm
from .. import impl
from .opcommon import h, base_desc

ID = 'C16'
LEVEL = 'exploration'
RULE = ('generated consistent / weakly consistent bases x random fact lists (strings and FNodes; satisfiable, '
        'jointly unsatisfiable, contradicting the base) x extended in {None, False, True}: '
        'PreOCF.init_system_z(...) objects are ranked in three histories (random lazy order with random '
        'force_calculation and repeated requests; compute_all_ranks; reverse order) and every rank is compared '
        'with the Z-rank of the reference model (extended: exactly the infeasible worlds get #finite layers + 1); '
        'cached ranks must never change; every base conditional outside the infinity layer must be accepted; for '
        'queries with a feasible antecedent model conditional_acceptance = InferenceManager(system-z) = reference '
        '(three-way); with facts the ranking equals that of the base augmented by (Bottom|!fact), fact-violating '
        'worlds get the top rank, an unsatisfiable combination raises ValueError carrying the diagnostics line, '
        'and the diagnostics stored in metadata equal the reference flags. Non-trivial = base with >= 2 layers, a '
        'non-empty infinity layer, or facts; distinct by hash(base, facts, extended).')
ASSUMPTIONS = ['worlds enumerated: <= 5 atoms; every 250th (quick) / 90th (thorough) case has 11 atoms and is judged relationally (acceptance = System Z operator)']
HARD_TIMEOUT = 400
SOFT_TIMEOUT = 300
TRUSTED = []
FLOOR = {'quick': 150, 'thorough': 1500}
BUDGET = {'quick': 100, 'thorough': 1200}
N = {'quick': 2500, 'thorough': 30000}
REQUIRED = {'quick': {'objects_with_facts': 40, 'refusals_with_diagnostics': 10, 'acceptance_threeway': 300,
                      'forced_recalculations': 300},
            'thorough': {'objects_with_facts': 1000, 'refusals_with_diagnostics': 200, 'acceptance_threeway': 15000,
                         'forced_recalculations': 3000}}


def cases(tier, seed):
    out = [{'prop': ID, 'seed': seed, 'idx': i, 'large': i % (250 if tier == 'quick' else 200) == 5} for i in range(N[tier])]
    out.sort(key=lambda c: not c['large'])
    return out


def run_large(case):
    """more than 10 atoms: no world enumeration; the ranking object's acceptance verdict must equal the
    System Z operator's answer (real code against itself) and base rules must be accepted"""
    from inference.preocf import PreOCF
    from .. import corpus
    rng = gen.rng_for(case['seed'], ID, case['idx'])
    res = {'evals': 0, 'nontrivial': [], 'violations': [], 'inconclusive': [], 'counters': {}}
    for _ in range(80):
        sig, conds = corpus.union_base(rng, parts=3, want='strong')
        if len(sig) == 11:
            break
    else:
        return res
    res['counters']['large_objects'] = 1
    bdesc = {'atoms': len(sig), 'conditionals': len(conds), 'conds': [fml.cond_text(*c) for c in conds]}
    o = PreOCF.init_system_z(impl.mk_bb(sig, conds))
    qs = []
    B, A = rng.choice(conds)
    qs.append((B, A))                                           # a base rule
    qs.append((B, fml.And(A, B)))                               # A entails B: A & !B has no model
    x = fml.V(rng.choice(sig))
    qs.append((fml.Or(x, fml.Not(x)), fml.And(A, fml.Not(B))))  # consequent valid, antecedent exceptional
    op = impl.results(impl.ask(impl.mk_bb(sig, conds), 'system-z', '', impl.mk_queries(qs)))
    # the definition on a base of this size: satisfiability-based reference (vf/bigref.py)
    from .. import bigref
    try:
        S = bigref.BigSetup(bigref.BigBase(sig, conds), False)
        if S.ok:
            for _ in range(24):
                w = ''.join(rng.choice('01') for _ in sig)
                if rng.random() < 0.5:
                    # a world near a rule's falsification: flip towards A & !B of a random rule
                    wd = S.base.solve([S.base.fal[rng.randrange(len(conds))]])
                    if wd is not None:
                        w = ''.join('1' if wd[a] else '0' for a in sig)
                exp_r = S.zrank_world({a: c == '1' for a, c in zip(sig, w)})
                got_r = o.rank_world(w)
                res['evals'] += 1
                res['counters']['large_world_ranks_judged_by_definition'] = res['counters'].get('large_world_ranks_judged_by_definition', 0) + 1
                if got_r != exp_r:
                    res['violations'].append({'sig': 'zocf:rank-differs:more-than-10-atoms',
                                              'detail': {'base': bdesc, 'world': w, 'got': got_r, 'expected': exp_r,
                                                         'layers': [len(l) for l in S.part]}})
                    break
            for qi, (B, A) in enumerate(qs):
                if not S.feasible(A):
                    continue
                ref = S.answer('system-z', B, A)
                res['evals'] += 1
                res['counters']['large_acceptance_judged_by_definition'] = res['counters'].get('large_acceptance_judged_by_definition', 0) + 1
                if op[qi] != ref:
                    res['violations'].append({'sig': 'zocf:operator-differs-from-definition:more-than-10-atoms',
                                              'detail': {'base': bdesc, 'query': fml.cond_text(B, A), 'operator': op[qi], 'definition': ref}})
    except bigref.OracleError as e:
        res['inconclusive'].append('large-base oracle: %s' % e)
    for qi, (B, A) in enumerate(qs):
        if not fml.tt(A, sig):
            continue            # antecedent without model: outside the statement (acceptance is defined as False)
        acc = o.conditional_acceptance(impl.mk_cond(B, A))
        res['evals'] += 1
        res['nontrivial'].append(h(bdesc, fml.cond_text(B, A)))
        res['counters']['large_acceptance_vs_operator'] = res['counters'].get('large_acceptance_vs_operator', 0) + 1
        if acc != op[qi]:
            res['violations'].append({'sig': 'zocf:acceptance-differs-from-operator:more-than-10-atoms',
                                      'detail': {'base': bdesc, 'query': fml.cond_text(B, A), 'acceptance': acc,
                                                 'operator': op[qi]}})
    res['sample'] = {'base': bdesc, 'kind': 'large (acceptance vs operator)', 'queries': [fml.cond_text(*q) for q in qs]}
    return res


def run_case(case):
    from inference.preocf import PreOCF
    if case.get('large'):
        return run_large(case)
    rng = gen.rng_for(case['seed'], ID, case['idx'])
    res = {'evals': 0, 'nontrivial': [], 'violations': [], 'inconclusive': [], 'counters': {}}
    cnt = res['counters']

    def bump(k, n=1):
        cnt[k] = cnt.get(k, 0) + n

    weak_wanted = rng.random() < 0.4
    sig, conds, fam = gen.gen_base(rng, 'weak' if weak_wanted else 'strong',
                                   **(dict(nat=rng.randint(2, 5)) if False else {}))
    if len(sig) > 5:
        sig, conds, fam = gen.gen_base(rng, 'weak' if weak_wanted else 'strong', family='rand',
                                       nat=rng.randint(2, 4))
    use_facts = rng.random() < 0.45
    facts_ast = []
    if use_facts:
        for _ in range(rng.randint(1, 2)):
            r = rng.random()
            if r < 0.6:
                a = fml.V(rng.choice(sig))
                facts_ast.append(a if rng.random() < 0.5 else fml.Not(a))
            elif r < 0.9:
                facts_ast.append(fml.rand_formula(rng, sig, 2, 0.0))
            else:
                a = fml.V(rng.choice(sig))
                facts_ast.append(fml.And(a, fml.Not(a)))
    if use_facts and len(sig) >= 2 and rng.random() < 0.12:
        t1, t2 = gen.deep_twins(rng, sig, [])      # two facts identical down to nesting depth >= 6
        facts_ast = [t1[1], t2[1]] if rng.random() < 0.5 else [t1[0], t2[0]]
        bump('objects_with_deep_twin_facts')
    if weak_wanted:
        extended = rng.choice([True, True, None]) if use_facts else True
    else:
        extended = rng.choice([None, False, True])
    eff_ext = extended if extended is not None else bool(use_facts)
    bdesc = base_desc(sig, conds)
    facts_txt = [fml.to_text(f, 'min') for f in facts_ast]
    tag = 'ext=%s,facts=%s' % (extended, bool(use_facts))

    def viol(sig_, **d):
        d.update(base=bdesc, facts=facts_txt, extended=extended)
        res['violations'].append({'sig': 'zocf:%s:%s' % (sig_, tag), 'detail': d})

    aug = conds + [(fml.BOT, fml.Not(f)) for f in facts_ast]
    base = rm.Base(sig, aug)
    plain = rm.Base(sig, conds)
    setup = rm.Setup(base, eff_ext)
    n = len(sig)
    worlds = [fml.world_str(w, sig) for w in range(1 << n)]

    keys = None
    if rng.random() < 0.4:          # keys with gaps / not starting at 1 (e.g. after deleting conditionals)
        keys = sorted(rng.sample(range(0, 2 * len(conds) + 3), len(conds)))
        if rng.random() < 0.3:
            rng.shuffle(keys)
        bump('objects_with_non_contiguous_keys')
    bdesc['keys'] = keys

    def mk():
        facts = [t if rng.random() < 0.5 else fml.to_pysmt(f) for t, f in zip(facts_txt, facts_ast)] or None
        bb = impl.mk_bb(sig, conds, keys=keys)
        return PreOCF.init_system_z(bb, facts=facts, extended=extended)

    # ---- construction / refusal
    try:
        o1 = mk()
    except ValueError as e:
        res['evals'] += 1
        if setup.ok:
            viol('refused-acceptable-input', error=str(e)[:300])
            return res
        if not use_facts:
            res['inconclusive'].append('generator produced an unacceptable base without facts')
            return res
        bump('refusals_with_diagnostics')
        ftt = base.FULL
        for f in facts_ast:
            ftt &= fml.tt(f, base.wsig)
        exp = {'facts_consistent': bool(ftt),
               'belief_base_consistent': rm.Setup(plain, False).ok,
               'belief_base_weakly_consistent': rm.Setup(plain, True).ok if eff_ext else None,
               'combination_consistent': False, 'combination_infinity_increase': None}
        line = ', '.join('%s=%s' % (k, exp[k]) for k in ('facts_consistent', 'belief_base_consistent',
                                                         'belief_base_weakly_consistent', 'combination_consistent',
                                                         'combination_infinity_increase'))
        if line not in str(e):
            viol('refusal-message-lacks-diagnostics', error=str(e)[:300], expected_fragment=line)
        res['nontrivial'].append(h(bdesc, facts_txt, extended))
        res['sample'] = {'base': bdesc, 'facts': facts_txt, 'extended': extended, 'refused': str(e)[:200]}
        return res
    except Exception as e:
        viol('constructor-raised:%s' % type(e).__name__, error=str(e)[:300])
        return res
    if not setup.ok:
        viol('accepted-unacceptable-combination', reason=getattr(setup, 'reason', ''))
        return res
    if use_facts:
        bump('objects_with_facts')
    top = len(setup.part) + 1
    exp_rank = {}
    for w in range(1 << n):
        exp_rank[worlds[w]] = setup.zrank(w) if (setup.feas >> w) & 1 else top
    if eff_ext and setup.feas != base.FULL:
        bump('objects_with_infeasible_worlds')

    # ---- three histories
    o2, o3 = mk(), mk()
    hist = []
    order = list(worlds)
    rng.shuffle(order)
    seen = {}
    for w in order + [rng.choice(worlds) for _ in range(len(worlds))]:
        force = rng.random() < 0.3
        if force:
            bump('forced_recalculations')
        r = o1.rank_world(w, force_calculation=force)
        hist.append((w, force, r))
        res['evals'] += 1
        if w in seen and seen[w] != r:
            viol('cached-rank-changed', world=w, before=seen[w], after=r, history=hist[-6:])
        seen[w] = r
        if o1.ranks[w] != r:
            viol('cache-differs-from-returned-rank', world=w, cache=o1.ranks[w], returned=r)
    all2 = o2.compute_all_ranks()
    for w in reversed(worlds):
        o3.rank_world(w)
    for name, got in (('lazy-random-order', seen), ('compute_all_ranks', all2), ('reverse-order', dict(o3.ranks))):
        bad = [w for w in worlds if got.get(w) != exp_rank[w]]
        if bad:
            w = bad[0]
            kind = ('infeasible-world-rank' if not (setup.feas >> worlds.index(w)) & 1 else 'feasible-world-rank')
            viol('rank-differs:%s' % kind, history=name, world=w, got=got.get(w), expected=exp_rank[w],
                 partition=setup.part, inf=setup.inf)
    for f_i, f in enumerate(facts_ast):
        t = fml.tt(f, base.wsig)
        for w in range(1 << n):
            if not (t >> w) & 1 and seen[worlds[w]] != top:
                viol('fact-violating-world-not-top-rank', world=worlds[w], got=seen[worlds[w]], top=top)
                break

    # ---- calls that FAIL (bad argument) must leave the objects as they were: everything below is asked afterwards
    if rng.random() < 0.3:
        from pysmt.shortcuts import Int as _Int
        for ob in (o2, o3):
            for arg in rng.sample([None, 'p,!f', _Int(3)], 2):
                try:
                    ob.formula_rank(arg)
                    bump('bad_argument_calls_that_returned')
                except Exception:
                    bump('failed_calls_injected')

    # ---- base conditionals outside the infinity layer are accepted
    for i, (B, A) in enumerate(conds):
        if i in setup.inf:
            continue
        res['evals'] += 1
        if not o2.conditional_acceptance(impl.mk_cond(B, A)):
            viol('base-conditional-not-accepted', conditional=fml.cond_text(B, A))

    # ---- three-way acceptance
    qs = gen.gen_queries(rng, sig, conds, 6, extra_atom_p=0.0)
    from inference.belief_base import BeliefBase
    aug_bb = impl.mk_bb(sig, aug)
    try:
        op = impl.results(impl.ask(aug_bb, 'system-z', '', impl.mk_queries(qs), weakly=eff_ext))
    except Exception as e:
        op = None
        res['inconclusive'].append('system-z operator raised %s: %s' % (type(e).__name__, str(e)[:100]))
    fresh = mk() if rng.random() < 0.5 else None      # acceptance on an object with no rank computed yet (lazy path)
    if fresh is not None:
        bump('acceptance_on_unranked_object')
    for qi, (B, A) in enumerate(qs):
        qv, qf = base.q(B, A)
        if not ((qv | qf) & setup.feas):
            continue                     # antecedent has no feasible model: outside the statement
        acc = (fresh if fresh is not None else o3).conditional_acceptance(impl.mk_cond(B, A))
        ref = rm.answer(setup, 'system-z', qv, qf)
        res['evals'] += 1
        bump('acceptance_threeway')
        if acc != ref or (op is not None and op[qi] != ref):
            who = 'ranking-object' if acc != ref else 'operator'
            viol('acceptance-differs:%s-deviates' % who, query=fml.cond_text(B, A), acceptance=acc,
                 operator=None if op is None else op[qi], definition=ref)

    # ---- stored diagnostics
    d = o1.load_meta('consistency_diagnostics')
    if not isinstance(d, dict):
        viol('diagnostics-missing')
    else:
        exp = {'belief_base_consistent': rm.Setup(plain, False).ok}
        if eff_ext:
            exp['belief_base_weakly_consistent'] = rm.Setup(plain, True).ok
        if use_facts:
            ftt = base.FULL
            for f in facts_ast:
                ftt &= fml.tt(f, base.wsig)
            exp['facts_consistent'] = bool(ftt)
            exp['combination_consistent'] = True
            sp = rm.Setup(plain, True)
            if eff_ext and sp.ok:
                exp['combination_infinity_increase'] = len(setup.inf) > len(sp.inf)
        for k, v in exp.items():
            if d.get(k) is not v:
                viol('stored-diagnostics-flag:%s' % k, got=d.get(k), expected=v)
    if len(setup.part) >= 2 or setup.inf or use_facts:
        res['nontrivial'].append(h(bdesc, facts_txt, extended))
    res['sample'] = {'base': bdesc, 'facts': facts_txt, 'extended': extended, 'layers': setup.part,
                     'infinity_layer': setup.inf, 'ranks': exp_rank if n <= 3 else '...'}
    return res

"""Shared driver for the operator-vs-definition monitors (C01-C05, C07)."""
import hashlib
import json

from .. import fml, gen, refmodel as rm, cref
from .. import impl


def h(*parts):
    return hashlib.sha1(json.dumps(parts, sort_keys=True, default=str).encode()).hexdigest()[:12]


def base_desc(sig, conds):
    return {'sig': list(sig), 'conds': [fml.cond_text(B, A) for (B, A) in conds]}


def has_const(f):
    if f[0] in ('top', 'bot'):
        return True
    return any(has_const(x) for x in f[1:] if isinstance(x, tuple))


def input_tags(conds, q):
    t = []
    if any(has_const(B) or has_const(A) for (B, A) in conds):
        t.append('base-const')
    if has_const(q[0]) or has_const(q[1]):
        t.append('query-const')
    return t


def oracle_answer(setup, csys, system, qv, qf):
    """(answer or None, note)"""
    if system == 'c-inference':
        V = qv & setup.feas
        F = qf & setup.feas
        return csys.c_inference(V, F)
    return rm.answer(setup, system, qv, qf), None


def run_operator_case(case, prop, configs, weakly, want, nq=8, cinf_bounds=(5, 5)):
    """One base, nq queries, every configuration in `configs`; judge every row by M3/M5."""
    rng = gen.rng_for(case['seed'], prop, case['idx'])
    fam = case.get('family')
    if case.get('witness') is not None:
        from .. import instrument as _ins
        g = _ins.StallGuard()
        g.install()
        try:
            return run_witness_case(case, prop, configs, weakly)
        finally:
            g.uninstall()
    kw = {}
    if 'c-inference' in [c[0] for c in configs]:
        kw = dict(nat=rng.randint(2, cinf_bounds[0]), ncond=rng.randint(1, cinf_bounds[1]))
    if fam is None and kw:
        fam = rng.choices(['rand', 'chain', 'indep', 'conjcons', 'multiex', 'expchain', 'disjant'], [8, 1, 1, 2.5, 1, 0.8, 2])[0]
    sig, conds, fam = gen.gen_base(rng, want=want, family=fam, **(kw if fam == 'rand' else {}))
    qs = gen.gen_queries(rng, sig, conds, nq, p_tie=0.75 if fam in ('conjcons', 'multiex') else 0.2)
    if fam == 'd4':
        qs[0] = gen.D4_QUERY
    via = 'parser' if rng.random() < 0.5 else 'api'
    style = rng.choice(['full', 'min'])
    parallel = rng.random() < 0.06       # the definition does not depend on how the batch is evaluated
    if parallel and rng.random() < 0.25:
        # a parallel batch with more queries than CPUs (anything that splits the batch into rounds or chunks
        # must still return every row under its own key)
        import os as _os
        qs = qs + gen.gen_queries(rng, sig, conds, max(0, (_os.cpu_count() or 4) + rng.randint(1, 4) - len(qs)))
    reuse_objects = rng.random() < 0.08
    keys = None
    if rng.random() < 0.25:      # bases whose keys are not 1..n (e.g. after deleting a conditional)
        keys = sorted(rng.sample(range(-2, 2 * len(conds) + 3), len(conds)))
        if rng.random() < 0.3:
            rng.shuffle(keys)
    res = {'evals': 0, 'nontrivial': [], 'violations': [], 'inconclusive': [], 'counters': {}}
    cnt = res['counters']

    def bump(k, sub=None, n=1):
        if sub is None:
            cnt[k] = cnt.get(k, 0) + n
        else:
            d = cnt.setdefault(k, {})
            d[sub] = d.get(sub, 0) + n

    extra = set()
    for (B, A) in qs:
        fml.atoms(B, extra)
        fml.atoms(A, extra)
    base = rm.Base(sig, conds, extra_atoms=sorted(extra))
    setup = rm.Setup(base, weakly)
    assert setup.ok
    csys = cref.CSys(base) if any(c[0] == 'c-inference' for c in configs) else None
    bump('layers', str(len(setup.part)))
    bump('family', fam)
    if parallel:
        bump('cases_evaluated_in_parallel')
        if len(qs) > nq:
            bump('parallel_batches_larger_than_cpu_count')
    if weakly:
        bump('inf_layer_size', str(len(setup.inf)))
        if not setup.part:
            bump('bases_without_finite_layer')
    qtt = [base.q(B, A) for (B, A) in qs]
    bdesc = base_desc(sig, conds)
    mode = 'extended' if weakly else 'strict'
    ref_by_sys = {}
    from .. import instrument as _ins
    guard = _ins.StallGuard()
    guard.install()
    debug = rng.random() < 0.04          # answers must not depend on the log level
    if debug:
        bump('cases_with_debug_logging')
    try:
        with impl.debug_logging(debug):
            return _run_configs(rng, res, bump, configs, weakly, mode, sig, conds, keys, via, style, parallel, qs, qtt,
                                    reuse_objects,
                                setup, csys, base, bdesc, ref_by_sys, extra, fam, prop)
    finally:
        guard.uninstall()


def _run_configs(rng, res, bump, configs, weakly, mode, sig, conds, keys, via, style, parallel, qs, qtt,
                 reuse_objects,
                 setup, csys, base, bdesc, ref_by_sys, extra, fam, prop):
    shared_bb = impl.mk_bb(sig, conds, keys=keys, via=via, style=style) if rng.random() < 0.15 else None
    if shared_bb is not None:
        bump('cases_with_one_base_object_for_all_managers')
    for (system, p) in configs:
        cname = impl.cfg_name(system, p)
        if system not in ref_by_sys:
            ref_by_sys[system] = [oracle_answer(setup, csys, system, qv, qf) for (qv, qf) in qtt]
        refs = ref_by_sys[system]
        bb = shared_bb if shared_bb is not None else impl.mk_bb(sig, conds, keys=keys, via=via, style=style)
        queries = impl.mk_queries(qs)
        if shared_bb is not None and system != 'c-inference':
            # the same BeliefBase OBJECT has just served a manager of the OTHER mode (and, in turn, the other
            # systems and back-ends): an answer depends on base, query, operator and mode only
            try:
                impl.ask(bb, system, p, impl.mk_queries(qs[:2]), weakly=not weakly)
            except BaseException as e_:  # noqa  (e.g. a weakly consistent base is refused in strict mode)
                if type(e_).__name__ in ('SoftTimeout', 'Stall'):
                    raise
        if reuse_objects:
            # the query OBJECTS have a past: they are the rules of another base that was already checked for
            # consistency and asked a query (answers depend on the formulas, not on where the objects have been)
            try:
                from inference.consistency_sat import consistency as _cons
                other = impl.mk_bb(sig, qs, via='api')
                _cons(other, 'z3', True)
                impl.ask(other, system, p, impl.mk_queries(qs[:1]), weakly=True)
            except BaseException as e_:  # noqa  (the other base may be unacceptable: irrelevant here)
                if type(e_).__name__ in ('SoftTimeout', 'Stall'):
                    raise
            from inference.queries import Queries as _Q
            queries = _Q(dict(other.conditionals))
        got = None
        try:
            df = impl.ask(bb, system, p, queries, weakly=weakly, **({'multi_inference': True} if parallel else {}))
            got = impl.results(df)
            if len(got) != len(qs):
                raise RuntimeError('row count %d != %d' % (len(got), len(qs)))
        except BaseException as e:  # noqa
            if isinstance(e, (KeyboardInterrupt,)) or type(e).__name__ == 'SoftTimeout':
                raise
            if type(e).__name__ == 'Stall':
                # logical-step verdict (DESIGN 6.1): a violation where the statement promises an answer
                # (extended mode: 'return a Boolean and never raise'), otherwise inconclusive
                if weakly:
                    res['violations'].append({'sig': '%s:%s:non-termination(enumeration makes no progress)' % (cname, mode),
                                              'detail': {'base': bdesc, 'steps': str(e)}})
                else:
                    res['inconclusive'].append('%s %s: %s' % (cname, mode, e))
                continue
            # localise: ask one by one
            got = []
            for qi, q in enumerate(qs):
                try:
                    bb1 = impl.mk_bb(sig, conds, keys=keys, via=via, style=style)
                    got.append(impl.results(impl.ask(bb1, system, p, impl.mk_queries([q]), weakly=weakly))[0])
                except BaseException as e1:  # noqa
                    if type(e1).__name__ == 'SoftTimeout':
                        raise
                    got.append(('EXC', type(e1).__name__, str(e1)[:200]))
        for qi, ((qv, qf), (exp, note), g) in enumerate(zip(qtt, refs, got)):
            res['evals'] += 1
            nontriv = bool(qv & setup.feas) and bool(qf & setup.feas)
            if nontriv:
                res['nontrivial'].append(h(bdesc, fml.cond_text(*qs[qi]), cname, mode))
                bump('nontrivial_rows', cname)
            qtext = fml.cond_text(*qs[qi])
            tags = input_tags(conds, qs[qi])
            if isinstance(g, tuple):
                res['violations'].append({
                    'sig': '%s:%s:exception:%s' % (cname, mode, g[1]),
                    'detail': {'base': bdesc, 'query': qtext, 'exception': g[1] + ': ' + g[2],
                               'oracle': exp, 'tags': tags, 'via': via}})
                continue
            if exp is None:
                res['inconclusive'].append('oracle undecided: %s' % (note,))
                continue
            bump('answers', '%s=%s' % (cname, g))
            if g != exp:
                res['violations'].append({
                    'sig': '%s:%s:wrong-answer(impl=%s,def=%s)%s' % (
                        cname, mode, g, exp, '' if nontriv else ':trivial-query'),
                    'detail': {'base': bdesc, 'query': qtext, 'impl': g, 'definition': exp,
                               'oracle_note': note, 'partition': setup.part, 'inf': setup.inf,
                               'tags': tags, 'via': via}})
    # ---- c-inference: the compiled base constraint system must describe exactly the c-representations.
    # (The answers are skeptical inference over that set; a system that loses or admits vectors changes some
    # answer even if none of this case's queries shows it.)
    if csys is not None and len(conds) <= 5 and rng.random() < 0.5:
        try:
            from inference.c_inference import CInference
            from inference.inference_manager import create_epistemic_state
            from pysmt.shortcuts import Solver, Symbol, Equals, Int
            from pysmt.typing import INT
            bbx = impl.mk_bb(sig, conds, keys=keys)
            es = create_epistemic_state(bbx, 'c-inference', 'z3', 'rc2', False)
            ci = CInference(es)
            ci.preprocess_belief_base(0)
            csp = es.get('base_csp', getattr(ci, 'base_csp', None))
            klist = list(bbx.conditionals.keys())
            if csp is not None:
                from pysmt.shortcuts import get_free_variables, And as _PAnd
                names = {v.symbol_name() for v in get_free_variables(_PAnd(list(csp)))} if csp else set()
                falsifiable = [kk for kk, i_ in zip(klist, range(len(conds))) if base.fal[i_]]
                if not all(('eta_%s' % kk) in names for kk in falsifiable):
                    # the impacts are not called eta_<key> in this constraint system: the monitor cannot be
                    # attached (a verdict would be about a symbol the library does not use)
                    bump('constraint_system_monitor_not_attached')
                    csp = None
            if csp is not None:
                n_ = len(conds)
                hi = n_ + 2
                import itertools
                space = list(itertools.product(range(hi + 1), repeat=n_))
                if len(space) > 260:
                    space = [tuple(rng.randint(0, hi) for _ in range(n_)) for _ in range(260)]
                with Solver(name='z3') as sv:
                    for cst in csp:
                        sv.add_assertion(cst)
                    for eta in space:
                        sv.push()
                        for kk, v in zip(klist, eta):
                            sv.add_assertion(Equals(Symbol('eta_%s' % kk, INT), Int(v)))
                        acc = sv.solve()
                        sv.pop()
                        truth = csys.is_crep(eta)
                        res['evals'] += 1
                        bump('impact_vectors_judged')
                        if acc != truth:
                            res['violations'].append({
                                'sig': 'c-inference/rc2:%s:constraint-system-%s' % (
                                    mode, 'rejects-a-c-representation' if truth else 'admits-a-non-c-representation'),
                                'detail': {'base': bdesc, 'impacts': list(eta), 'is_c_representation': truth,
                                           'largest_impact_exceeds_number_of_conditionals': max(eta) > n_}})
                            break
        except Exception as e:  # the monitor could not be attached (names changed): no verdict
            if type(e).__name__ == 'SoftTimeout':
                raise
            bump('constraint_system_monitor_not_attached')
    # ---- the same BeliefBase OBJECT edited in place (a rule replaced under its key), asked again through new
    # managers: answers are a function of the base's content, not of what was computed for the object before
    if rng.random() < 0.2 and len(conds) >= 2:
        for _ in range(12):
            j = rng.randrange(len(conds))
            newc = gen.rand_base(rng, nat=len(sig), ncond=1, depth=rng.choice([0, 1, 2]), p_const=0.0)[1][0]
            conds2 = list(conds)
            conds2[j] = newc
            base2 = rm.Base(sig, conds2, extra_atoms=sorted(extra))
            setup2 = rm.Setup(base2, weakly)
            if setup2.ok and newc != conds[j]:
                break
        else:
            setup2 = None
        if setup2 is not None and setup2.ok:
            bump('in_place_edits')
            csys2 = cref.CSys(base2) if csys is not None else None
            bdesc2 = base_desc(sig, conds2)
            for (system, p) in configs:
                cname = impl.cfg_name(system, p)
                bb = impl.mk_bb(sig, conds, keys=keys, via='api')
                klist = list(bb.conditionals.keys())
                try:
                    impl.ask(bb, system, p, impl.mk_queries(qs[:2]), weakly=weakly)     # warm up on the old content
                    nc = impl.mk_cond(*newc)
                    nc.index = klist[j]
                    bb.conditionals[klist[j]] = nc                                       # edit in place
                    got2 = impl.results(impl.ask(bb, system, p, impl.mk_queries(qs), weakly=weakly))
                except BaseException as e:  # noqa
                    if type(e).__name__ == 'SoftTimeout':
                        raise
                    res['violations'].append({
                        'sig': '%s:%s:exception-after-in-place-edit:%s' % (cname, mode, type(e).__name__),
                        'detail': {'base_before': bdesc, 'base_after': bdesc2, 'error': str(e)[:200]}})
                    continue
                for qi, (B, A) in enumerate(qs):
                    qv2, qf2 = base2.q(B, A)
                    exp2, note2 = oracle_answer(setup2, csys2, system, qv2, qf2)
                    res['evals'] += 1
                    if exp2 is None:
                        continue
                    if got2[qi] != exp2:
                        stale = (got2[qi] == ref_by_sys[system][qi][0])
                        res['violations'].append({
                            'sig': '%s:%s:wrong-answer-after-in-place-edit(impl=%s,def=%s)%s' % (
                                cname, mode, got2[qi], exp2, ':equals-answer-for-old-content' if stale else ''),
                            'detail': {'base_before': bdesc, 'base_after': bdesc2, 'replaced_position': j,
                                       'query': fml.cond_text(B, A), 'impl': got2[qi], 'definition': exp2}})
    # discriminating statistics (measured on the oracle side)
    if 'system-w' in ref_by_sys or 'lex_inf' in ref_by_sys:
        for qi, (qv, qf) in enumerate(qtt):
            if not (qv & setup.feas and qf & setup.feas):
                continue
            z = rm.answer(setup, 'system-z', qv, qf)
            w = rm.answer(setup, 'system-w', qv, qf)
            l = rm.answer(setup, 'lex_inf', qv, qf)
            if w != z:
                bump('rows_W_differs_from_Z')
            if l != w:
                bump('rows_lex_differs_from_W')
    bdesc['keys'] = keys
    res['sample'] = {'base': bdesc, 'mode': mode, 'family': fam, 'via': via,
                     'queries': [fml.cond_text(*q) for q in qs[:4]],
                     'definition_answers': {s: [r[0] for r in v[:4]] for s, v in ref_by_sys.items()}}
    return res


def run_witness_case(case, prop, configs, weakly):
    """one entry of the witness corpus (vf/witness.py): its own queries plus generated tie-forcing ones, every
    configuration, judged by the reference semantics"""
    from .. import witness
    from parser.Wrappers import parse_belief_base, parse_queries
    rng = gen.rng_for(case['seed'], prop, 'w', case['witness'])
    name, sigt, rules, qtexts, extended_only = witness.WITNESSES[case['witness']]
    res = {'evals': 0, 'nontrivial': [], 'violations': [], 'inconclusive': [], 'counters': {'witness_cases': 1}}
    if extended_only and not weakly:
        return res
    bb0 = parse_belief_base(witness.text(sigt, rules))
    sig = list(bb0.signature)
    conds = [(fml.from_pysmt(c.consequence), fml.from_pysmt(c.antecedence)) for c in bb0.conditionals.values()]
    qs = [(fml.from_pysmt(c.consequence), fml.from_pysmt(c.antecedence))
          for c in parse_queries(','.join(qtexts)).conditionals.values()]
    if len(sig) <= 7:
        qs += gen.gen_queries(rng, sig, conds, 4, p_tie=0.8, extra_atom_p=0.0)
    base = rm.Base(sig, conds)
    setup = rm.Setup(base, weakly)
    if not setup.ok:
        return res
    mode = 'extended' if weakly else 'strict'
    bdesc = {'witness': name, 'sig': sig, 'conds': rules}
    csys = None
    for (system, p) in configs:
        if system == 'c-inference' and len(conds) > 6:
            continue
        if system == 'c-inference' and csys is None:
            csys = cref.CSys(base)
        cname = impl.cfg_name(system, p)
        try:
            got = impl.results(impl.ask(impl.mk_bb(sig, conds), system, p, impl.mk_queries(qs), weakly=weakly))
        except BaseException as e:  # noqa
            if type(e).__name__ == 'SoftTimeout':
                raise
            if type(e).__name__ == 'Stall' and not weakly:
                res['inconclusive'].append('%s %s: %s' % (cname, mode, e))
                continue
            res['violations'].append({'sig': '%s:%s:%s' % (cname, mode, 'non-termination(enumeration makes no progress)'
                                                           if type(e).__name__ == 'Stall' else 'exception:' + type(e).__name__),
                                      'detail': {'base': bdesc, 'error': str(e)[:200]}})
            continue
        for qi, (B, A) in enumerate(qs):
            qv, qf = base.q(B, A)
            exp, note = oracle_answer(setup, csys, system, qv, qf)
            res['evals'] += 1
            if exp is None:
                continue
            if (qv & setup.feas) and (qf & setup.feas):
                res['nontrivial'].append(h(bdesc, fml.cond_text(B, A), cname, mode))
            if got[qi] != exp:
                res['violations'].append({
                    'sig': '%s:%s:wrong-answer(impl=%s,def=%s)' % (cname, mode, got[qi], exp),
                    'detail': {'base': bdesc, 'query': fml.cond_text(B, A), 'impl': got[qi], 'definition': exp,
                               'witness': name}})
    res['sample'] = {'witness': name, 'base': bdesc, 'mode': mode, 'queries': [fml.cond_text(*q) for q in qs[:3]]}
    return res


def selftest_birds():
    """textbook instance: penguins"""
    sig, conds = gen.BIRDS
    V, Not = fml.V, fml.Not
    b = rm.Base(sig, conds)
    s = rm.Setup(b, False)
    assert s.ok and [sorted(l) for l in s.part] == [[0, 3], [1, 2]], s.part
    exp = {  # (f|p) (!f|p) (w|p) (b|p)
        'p-entailment': [False, True, False, True],
        'system-z': [False, True, False, True],
        'system-w': [False, True, True, True],
        'lex_inf': [False, True, True, True],
    }
    qs = [(V('f'), V('p')), (Not(V('f')), V('p')), (V('w'), V('p')), (V('b'), V('p'))]
    for sysn, e in exp.items():
        got = [rm.answer(s, sysn, *b.q(B, A)) for (B, A) in qs]
        assert got == e, (sysn, got)
    cs = cref.CSys(b)
    assert [cs.c_inference(*b.q(B, A))[0] for (B, A) in qs] == [False, True, True, True]
    assert cs.is_crep((1, 2, 2, 1)) and not cs.is_crep((1, 1, 1, 1))
    assert cs.pareto_minimal((1, 2, 2, 1))[0]
    # D4 shape: W and lex infer the hand-derived query
    sig, conds = gen.D4_BASE
    b = rm.Base(sig, conds)
    s = rm.Setup(b, False)
    qv, qf = b.q(*gen.D4_QUERY)
    assert rm.answer(s, 'system-w', qv, qf) is True and rm.answer(s, 'lex_inf', qv, qf) is True
    # extended: {(!b|b)} has no finite layer; b infeasible
    b = rm.Base(['a', 'b'], [(Not(V('b')), V('b'))])
    s = rm.Setup(b, True)
    assert s.ok and s.part == [] and s.inf == [0]
    assert rm.answer(s, 'system-z', *b.q(V('a'), V('b'))) is True      # antecedent infeasible
    assert rm.answer(s, 'system-z', *b.q(V('a'), Not(V('b')))) is False


# ---------------------------------------------------------------------------------------------------------
# Large bases judged by the DEFINITION (vf/bigref.py: satisfiability-based, certified models), not only
# relationally: p-entailment, System Z, lex_inf and System W exactly (W by counterexample-guided search; if it
# does not converge, through Z <= W <= lex); c-inference through the bounds the definitions force
# (p <= c <= W <= lex).

BIG_N = {'quick': 64, 'thorough': 900}


def big_cases(prop, tier, seed):
    return [{'prop': prop, 'seed': seed, 'idx': 2 * 10 ** 6 + i, 'big': True, 'tier': tier} for i in range(BIG_N[tier])]


def big_source(rng, tier, weakly, cinf):
    """(sig, conds, source tag) of a base with 8 .. 60 (thorough: 100) atoms"""
    from .. import corpus
    r = rng.random()
    if cinf:
        if r < 0.5:
            files = [f for f in corpus.random_large(20) if f[0] >= 8]
            a, c, i, path = files[rng.randrange(len(files))]
            _, sig, conds = corpus.load(path)
            return sig, conds, path.split('/examples/')[-1]
        sig, conds = corpus.union_base(rng, parts=rng.randint(2, 4), want='strong')
        return sig, conds, 'union'
    if r < 0.4 and not weakly:
        files = [f for f in corpus.random_large(40 if tier == 'quick' else 80) if f[0] >= 8]
        a, c, i, path = files[rng.randrange(len(files))]
        _, sig, conds = corpus.load(path)
        return sig, conds, path.split('/examples/')[-1]
    if r < 0.55 and not weakly:
        ps = corpus.other_corpora()
        path = ps[rng.randrange(len(ps))]
        _, sig, conds = corpus.load(path)
        return sig, conds, path.split('/examples/')[-1]
    sig, conds = corpus.union_base(rng, parts=rng.randint(3, 8), want='weak_or_strong' if weakly else 'strong')
    return sig, conds, 'union'


def run_big_case(case, prop, configs, weakly):
    from .. import bigref, corpus
    rng = gen.rng_for(case['seed'], prop, case['idx'])
    res = {'evals': 0, 'nontrivial': [], 'violations': [], 'inconclusive': [], 'counters': {}}
    cnt = res['counters']

    def bump(k, sub=None, n=1):
        if sub is None:
            cnt[k] = cnt.get(k, 0) + n
        else:
            d = cnt.setdefault(k, {})
            d[sub] = d.get(sub, 0) + n
    cinf = any(c[0] == 'c-inference' for c in configs)
    sig, conds, src = big_source(rng, case.get('tier', 'quick'), weakly, cinf)
    mode = 'extended' if weakly else 'strict'
    bdesc = {'source': src, 'atoms': len(sig), 'conditionals': len(conds)}
    if len(conds) <= 12:
        bdesc.update(base_desc(sig, conds))
    try:
        B_ = bigref.BigBase(sig, conds)
        S = bigref.BigSetup(B_, weakly)
        if not S.ok:
            bump('large_base_not_acceptable_in_mode')
            return res
        qs = corpus.derived_queries(rng, sig, conds, 6, layers=S.part or None)
        exp = {}
        for (system, p) in configs:
            if system not in exp:
                exp[system] = [S.bounds(system, B, A) for (B, A) in qs]
    except bigref.OracleError as e:
        res['inconclusive'].append('large-base oracle: %s' % e)
        return res
    bump('large_bases_judged_by_definition')
    bump('large_base_layers', str(len(S.part)))
    bump('large_base_atoms', str(10 * (len(sig) // 10)) + '+')
    bump('oracle_sat_certified', None, B_.sat_certified)
    bump('oracle_unsat_trusted', None, B_.unsat_trusted)
    if S.inf:
        bump('large_bases_with_infinity_layer')
    keys = None
    if rng.random() < 0.25:
        keys = sorted(rng.sample(range(0, 2 * len(conds) + 3), len(conds)))
    parallel = rng.random() < 0.05
    for (system, p) in configs:
        cname = impl.cfg_name(system, p)
        if p == 'z3' and len(conds) > 50:
            bump('large_base_z3_backend_skipped_for_cost')       # minutes per batch; the rc2 back-end is judged
            continue
        try:
            df = impl.ask(impl.mk_bb(sig, conds, keys=keys), system, p, impl.mk_queries(qs), weakly=weakly,
                          **({'multi_inference': True} if parallel else {}))
            got = impl.results(df)
            if len(got) != len(qs):
                raise RuntimeError('row count %d != %d' % (len(got), len(qs)))
        except BaseException as e:  # noqa
            if isinstance(e, KeyboardInterrupt) or type(e).__name__ == 'SoftTimeout':
                raise
            res['violations'].append({'sig': '%s:%s:exception:%s:large-base' % (cname, mode, type(e).__name__),
                                      'detail': {'base': bdesc, 'error': str(e)[:200], 'queries': [fml.cond_text(*q) for q in qs]}})
            continue
        for qi, ((lo, hi), g) in enumerate(zip(exp[system], got)):
            res['evals'] += 1
            exact = lo is not None and lo == hi
            bump('large_rows_decided_by_definition' if exact else 'large_rows_only_bounded', cname)
            if exact:
                bump('large_answers', '%s=%s' % (cname, g))
                res['nontrivial'].append(h(bdesc, fml.cond_text(*qs[qi]), cname, mode, 'big'))
            bad = None
            if lo is True and g is not True:
                bad = 'wrong-answer(impl=False,def=True)'
            elif hi is False and g is not False:
                bad = 'wrong-answer(impl=True,def=False)'
            if bad:
                res['violations'].append({
                    'sig': '%s:%s:%s:large-base%s' % (cname, mode, bad, '' if exact else ':by-inclusion-bounds'),
                    'detail': {'base': bdesc, 'query': fml.cond_text(*qs[qi]), 'impl': g,
                               'definition_bounds': [lo, hi], 'partition_sizes': [len(l) for l in S.part],
                               'infinity_layer': len(S.inf), 'keys': keys}})
    res['sample'] = {'base': bdesc, 'mode': mode, 'kind': 'large base judged by the satisfiability-based definition',
                     'queries': [fml.cond_text(*q) for q in qs[:3]], 'layers': [len(l) for l in S.part]}
    return res

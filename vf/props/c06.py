"""C06: consistency verdicts, tolerance partitions, diagnostics flags and refusal are exact (DESIGN.md section 7, C06)."""
from .. import fml, gen, refmodel as rm
from .. import impl
from .opcommon import h, base_desc

ID = 'C06'
LEVEL = 'exploration'
RULE = ('unfiltered random and shaped bases (consistent, weakly consistent, inconsistent, empty; constants, '
        'duplicates, unverifiable/unfalsifiable conditionals), keys 1..n or arbitrary; both modes: '
        'consistency() and consistency_indices() compared with the tolerance-partition model M1 (verdict, '
        'layers, order) and with each other; consistency_diagnostics() for random fact lists (strings and '
        'FNodes, with/without precomputed partitions) compared flag by flag with M1 on the base and on the base '
        'augmented by (Bottom|!fact); every operator/back-end must raise on an empty or mode-inconsistent base. '
        'Non-trivial = base with >= 2 conditionals that is inconsistent or whose (extended) partition has >= 2 '
        'non-empty layers; distinct by hash(base).')
ASSUMPTIONS = ['worlds are enumerated: <= 6 atoms; additionally 60 (thorough: 900) bases of 8-100 atoms judged by the same definition evaluated with satisfiability questions (vf/bigref.py)', 'reference partition M1 is unique, so it is an exact oracle']
TRUSTED = ["z3 'unsat' answers inside the large-base reference vf/bigref.py (its 'sat' answers are re-checked by the pure-Python evaluator)"]
FLOOR = {'quick': 150, 'thorough': 1500}
BUDGET = {'quick': 90, 'thorough': 900}
N = {'quick': 2000, 'thorough': 30000}
REQUIRED = {'quick': {'refusals_checked': 100, 'diagnostics_checked': 400},
            'thorough': {'refusals_checked': 2000, 'diagnostics_checked': 10000}}


BIG_N = {'quick': 60, 'thorough': 900}


def cases(tier, seed):
    return ([{'prop': ID, 'seed': seed, 'idx': 2 * 10 ** 6 + i, 'big': True, 'tier': tier} for i in range(BIG_N[tier])]
            + [{'prop': ID, 'seed': seed, 'idx': i} for i in range(N[tier])])


def run_big(case):
    """bases of 8-100 atoms: verdict and partition of both variants, both modes, against the tolerance-partition
    definition evaluated with satisfiability questions (vf/bigref.py); unions are made inconsistent / weakly
    consistent by adding contradicting and self-defeating rules"""
    from inference.consistency_sat import consistency, consistency_indices
    from .. import bigref, corpus
    from .opcommon import big_source
    rng = gen.rng_for(case['seed'], ID, case['idx'])
    res = {'evals': 0, 'nontrivial': [], 'violations': [], 'inconclusive': [], 'counters': {}}
    cnt = res['counters']
    sig, conds, src = big_source(rng, case.get('tier', 'quick'), rng.random() < 0.4, False)
    conds = list(conds)
    r = rng.random()
    if r < 0.25:
        B, A = rng.choice(conds)
        conds.insert(rng.randrange(len(conds) + 1), (fml.Not(B), A))          # contradicts a rule: often inconsistent
    elif r < 0.45:
        x = fml.V(rng.choice(sig))
        conds.insert(rng.randrange(len(conds) + 1), (fml.Not(x), x))          # self-defeating: infinity layer
    keys = sorted(rng.sample(range(0, 2 * len(conds) + 2), len(conds))) if rng.random() < 0.3 else None
    bdesc = {'source': src, 'atoms': len(sig), 'conditionals': len(conds), 'keys': 'arbitrary' if keys else '1..n'}
    bb = impl.mk_bb(sig, conds, keys=keys)
    klist = list(bb.conditionals.keys())
    pos_obj = {id(c): i for i, c in enumerate(bb.conditionals.values())}
    pos_key = {k: i for i, k in enumerate(klist)}
    try:
        B_ = bigref.BigBase(sig, conds)
        refs = {}
        for weakly in (False, True):
            S = bigref.BigSetup(B_, weakly)
            refs[weakly] = False if not S.ok else ([sorted(l) for l in S.part] + ([sorted(S.inf)] if weakly else []))
    except bigref.OracleError as e:
        res['inconclusive'].append('large-base oracle: %s' % e)
        return res
    cnt['large_bases_judged_by_definition'] = 1
    cnt['large_class'] = {('strong' if refs[False] is not False else 'weak' if refs[True] is not False else 'inconsistent'): 1}
    for weakly in (False, True):
        mode = 'extended' if weakly else 'strict'
        try:
            po, _ = consistency(bb, 'z3', weakly)
            pk, _ = consistency_indices(bb, 'z3', weakly)
        except Exception as e:
            res['violations'].append({'sig': 'consistency:%s:exception:%s:large-base' % (mode, type(e).__name__),
                                      'detail': {'base': bdesc, 'error': str(e)[:200]}})
            continue
        res['evals'] += 2
        io = False if po is False else [sorted(pos_obj[id(c)] for c in l) for l in po]
        ik = False if pk is False else [sorted(pos_key[k] for k in l) for l in pk]
        r_ = refs[weakly]
        if (io is False) != (r_ is False):
            res['violations'].append({'sig': 'consistency:%s:verdict(impl=%s,def=%s):large-base' % (mode, io is not False, r_ is not False),
                                      'detail': {'base': bdesc, 'definition_layers': r_ and [len(l) for l in r_]}})
        elif io is not False and io != r_:
            res['violations'].append({'sig': 'consistency:%s:partition-differs:large-base' % mode,
                                      'detail': {'base': bdesc, 'impl': [len(l) for l in io], 'definition': [len(l) for l in r_]}})
        if io != ik:
            res['violations'].append({'sig': 'consistency_indices:%s:differs-from-object-variant:large-base' % mode,
                                      'detail': {'base': bdesc}})
    res['nontrivial'].append(h(bdesc, [fml.cond_text(*c) for c in conds[:6]]))
    res['sample'] = {'base': bdesc, 'kind': 'large base judged by the satisfiability-based definition',
                     'strict_layers': refs[False] and [len(l) for l in refs[False]],
                     'extended_layers': refs[True] and [len(l) for l in refs[True]]}
    return res


def ref_partition(base, extended):
    r = rm.partition(base.ver, base.fal, list(range(len(base.conds))), base.FULL, extended)
    if r is None:
        return False
    if extended:
        return [list(l) for l in r[0]] + [list(r[1])]
    return [list(l) for l in r]


def run_case(case):
    if case.get('big'):
        return run_big(case)
    from inference.consistency_sat import consistency, consistency_indices
    from inference.consistency_diagnostics import consistency_diagnostics
    rng = gen.rng_for(case['seed'], ID, case['idx'])
    res = {'evals': 0, 'nontrivial': [], 'violations': [], 'inconclusive': [], 'counters': {}}
    cnt = res['counters']

    def bump(k, sub=None):
        if sub is None:
            cnt[k] = cnt.get(k, 0) + 1
        else:
            d = cnt.setdefault(k, {})
            d[sub] = d.get(sub, 0) + 1

    def viol(sig, **detail):
        detail['base'] = bdesc
        res['violations'].append({'sig': sig, 'detail': detail})

    if rng.random() < 0.02:
        sig, conds, fam = gen.NAMES[:rng.randint(1, 3)], [], 'empty'
    else:
        sig, conds, fam = gen.gen_base(rng, want='any',
                                       family=rng.choices(['rand', 'chain', 'indep', 'weak', 'd4'], [10, 1, 1, 4, 0.3])[0])
    if rng.random() < 0.15:
        # atom names that look like helper symbols an implementation might create for itself
        from .c12 import HELPER_LIKE
        m = dict(zip(sig, rng.sample(HELPER_LIKE, len(sig))))
        sig = [m[a] for a in sig]
        conds = [(fml.rename(B, m), fml.rename(A, m)) for (B, A) in conds]
        bump('bases_with_helper_like_atom_names')
    n = len(conds)
    keys = list(range(1, n + 1))
    if rng.random() < 0.4 and n:
        keys = rng.sample(range(0, 3 * n + 2), n)
    bdesc = base_desc(sig, conds)
    bdesc['keys'] = keys
    base = rm.Base(sig, conds)
    cls = gen.classify(sig, conds)[0]
    bump('class', cls)
    ref = {False: ref_partition(base, False), True: ref_partition(base, True)}
    via = 'parser' if (keys == list(range(1, n + 1)) and n and rng.random() < 0.5) else 'api'
    alias = None
    if via == 'api' and n >= 2 and rng.random() < 0.1:
        # the same Conditional OBJECT listed under two keys (rules drawn from a pool with replacement)
        i_, j_ = rng.sample(range(n), 2)
        conds = list(conds)
        conds[j_] = conds[i_]
        alias = (i_, j_)
        bdesc = base_desc(sig, conds)
        bdesc['keys'] = keys
        bdesc['same_object_at_positions'] = [i_, j_]
        base = rm.Base(sig, conds)
        ref = {False: ref_partition(base, False), True: ref_partition(base, True)}
        bump('bases_with_one_object_under_two_keys')
    bb = impl.mk_bb(sig, conds, keys=keys, via=via)
    klist = list(bb.conditionals.keys())
    if alias:
        bb.conditionals[klist[alias[1]]] = bb.conditionals[klist[alias[0]]]
    pos_of_key = {k: i for i, k in enumerate(klist)}

    def obj_positions(bb_, layers):
        """layers of objects -> layers of positions; an object listed under several keys stands for its
        positions in listing order"""
        groups = {}
        for i, c in enumerate(bb_.conditionals.values()):
            groups.setdefault(id(c), []).append(i)
        used = {}
        out = []
        for l in layers:
            ol = []
            for c in l:
                g = groups.get(id(c), [])
                u = used.get(id(c), 0)
                ol.append(g[u] if u < len(g) else -1)
                used[id(c)] = u + 1
            out.append(ol)
        return out
    real = {}
    debug = rng.random() < 0.05         # verdicts must not depend on the log level
    if debug:
        bump('cases_with_debug_logging')
    for weakly in (False, True):
        mode = 'extended' if weakly else 'strict'
        try:
            with impl.debug_logging(debug):
                po, so = consistency(bb, 'z3', weakly)
                pk, sk = consistency_indices(bb, 'z3', weakly)
        except Exception as e:
            viol('consistency:%s:exception:%s' % (mode, type(e).__name__), error=str(e)[:200])
            continue
        real[weakly] = (po, so)
        res['evals'] += 2
        io = False if po is False else obj_positions(bb, po)
        ik = False if pk is False else [[pos_of_key[k] for k in l] for l in pk]
        r = ref[weakly]
        if (io is False) != (r is False):
            viol('consistency:%s:verdict(impl=%s,def=%s)' % (mode, io is not False, r is not False),
                 impl=io, definition=r)
        elif io is not False and [sorted(l) for l in io] != [sorted(l) for l in r]:
            viol('consistency:%s:partition-differs' % mode, impl=io, definition=r)
        if io != ik:
            viol('consistency_indices:%s:differs-from-object-variant' % mode, objects=io, keys=ik)
        if r is not False:
            bump('layers_' + mode, str(len(r)))
    nonempty_layers = 0 if ref[True] is False else sum(1 for l in ref[True] if l)
    if n >= 2 and (ref[False] is False or nonempty_layers >= 2):
        res['nontrivial'].append(h(bdesc))

    # ---------------------------------------------------------------- diagnostics
    for _ in range(2):
        extended = rng.random() < 0.5
        uses_facts = rng.random() < 0.7
        nf = rng.randint(1, 3)
        facts_ast = [fml.rand_formula(rng, sig, rng.choice([0, 1, 2]), 0.03) for _ in range(nf)]
        unknown = uses_facts and rng.random() < 0.06
        if unknown:
            facts_ast[rng.randrange(nf)] = fml.And(fml.V('zz'), fml.V(sig[0]))
        if uses_facts and not unknown and len(sig) >= 2 and rng.random() < 0.12:
            # two different facts that are identical down to nesting depth >= 6, given as FNodes
            (f1, _), (f2, _) = gen.deep_twins(rng, sig, [])
            facts_ast = [f1, f2] if f1[0] != 'var' else [fml.Or(f1, fml.BOT), fml.Or(f2, fml.BOT)]
            t1, t2 = gen.deep_twins(rng, sig, [])
            facts_ast = [t1[1], t2[1]] if rng.random() < 0.5 else [t1[0], t2[0]]
            facts = [fml.to_pysmt(f) for f in facts_ast]
            bump('diagnostics_with_deep_twin_facts')
        else:
            facts = [fml.to_text(f, 'min') if rng.random() < 0.5 else fml.to_pysmt(f) for f in facts_ast]
        pre = {}
        if rng.random() < 0.5 and extended in real:
            pre['base_extended' if extended else 'base_standard'] = real[extended]
        kw = dict(extended=extended, uses_facts=uses_facts, on_inconsistent='silent')
        if uses_facts:
            kw['facts'] = facts
        if pre:
            kw['precomputed'] = pre
        tag = 'ext=%s,facts=%s' % (extended, uses_facts)
        try:
            d = consistency_diagnostics(bb, **kw)
        except ValueError as e:
            res['evals'] += 1
            bump('diagnostics_checked')
            if not unknown:
                viol('diagnostics:%s:unexpected-ValueError' % tag, error=str(e)[:200],
                     facts=[fml.to_text(f) for f in facts_ast])
            else:
                bump('diagnostics_unknown_variable_refused')
            continue
        except Exception as e:
            viol('diagnostics:%s:exception:%s' % (tag, type(e).__name__), error=str(e)[:200],
                 facts=[fml.to_text(f) for f in facts_ast])
            continue
        res['evals'] += 1
        bump('diagnostics_checked')
        if unknown:
            viol('diagnostics:%s:unknown-variable-accepted' % tag, facts=[fml.to_text(f) for f in facts_ast])
            continue
        exp = {}
        strict_ok = ref[False] is not False
        weak_ok = ref[True] is not False
        if uses_facts:
            ftt = base.FULL
            for f in facts_ast:
                ftt &= fml.tt(f, base.wsig)
            exp['facts_consistent'] = bool(ftt)
        exp['belief_base_consistent'] = strict_ok
        if extended:
            exp['belief_base_weakly_consistent'] = weak_ok
        if uses_facts:
            aug = rm.Base(sig, conds + [(fml.BOT, fml.Not(f)) for f in facts_ast])
            ra = ref_partition(aug, extended)
            exp['combination_consistent'] = ra is not False
            if extended and ra is not False and weak_ok:
                exp['combination_infinity_increase'] = len(ra[-1]) > len(ref[True][-1])
        got = {k: d.get(k) for k in ('facts_consistent', 'belief_base_consistent',
                                     'belief_base_weakly_consistent', 'combination_consistent',
                                     'combination_infinity_increase') if k in d}
        for k, v in exp.items():
            if got.get(k) is not v:
                viol('diagnostics:%s:flag:%s(impl=%s,def=%s)' % (tag, k, got.get(k), v),
                     facts=[fml.to_text(f) for f in facts_ast], impl=got, definition=exp,
                     precomputed=sorted(pre))
        for k in got:
            if k not in exp:
                viol('diagnostics:%s:unexpected-flag:%s' % (tag, k), impl=got, definition=exp)
        if uses_facts and exp.get('combination_infinity_increase'):
            bump('diagnostics_infinity_increase_true')

    # ---------------------------------------------------------------- the same base OBJECT edited in place
    # (a rule replaced under its key / a rule added / a rule deleted): verdicts, partitions, flags and refusal
    # are a function of the base's content, not of what was computed for the object before
    if n >= 2 and not alias and rng.random() < 0.3:
        for _step in range(rng.randint(1, 3)):
            kl = list(bb.conditionals.keys())
            cur = [(fml.from_pysmt(c.consequence), fml.from_pysmt(c.antecedence)) for c in bb.conditionals.values()]
            op = rng.choice(['replace', 'replace', 'add', 'delete']) if len(kl) >= 2 else 'add'
            newc = gen.rand_base(rng, nat=len(sig), ncond=1, depth=rng.choice([0, 1, 2]), p_const=0.03)[1][0]
            m_ = dict(zip(gen.NAMES, sig))
            newc = (fml.rename(newc[0], m_), fml.rename(newc[1], m_))
            if rng.random() < 0.4:
                Bx, Ax = rng.choice(cur)
                newc = (fml.Not(Bx), Ax)             # contradicts an existing rule: often flips the verdict
            if op == 'replace':
                j = rng.randrange(len(kl))
                nc = impl.mk_cond(*newc)
                nc.index = kl[j]
                bb.conditionals[kl[j]] = nc
                cur[j] = newc
            elif op == 'add':
                k_new = max(kl) + rng.randint(1, 3)
                nc = impl.mk_cond(*newc)
                nc.index = k_new
                bb.conditionals[k_new] = nc
                cur.append(newc)
            else:
                j = rng.randrange(len(kl))
                del bb.conditionals[kl[j]]
                del cur[j]
            bump('in_place_edits', op)
            base2 = rm.Base(sig, cur)
            ref2 = {False: ref_partition(base2, False), True: ref_partition(base2, True)}
            kl2 = list(bb.conditionals.keys())
            pk2 = {k: i for i, k in enumerate(kl2)}
            d2 = {'before': bdesc, 'after': base_desc(sig, cur), 'edit': op}
            for weakly in (False, True):
                mode = 'extended' if weakly else 'strict'
                try:
                    po, so = consistency(bb, 'z3', weakly)
                    pk, sk = consistency_indices(bb, 'z3', weakly)
                except Exception as e:
                    viol('consistency:%s:exception-after-in-place-edit:%s' % (mode, type(e).__name__), error=str(e)[:200], **d2)
                    continue
                res['evals'] += 2
                try:
                    io = False if po is False else obj_positions(bb, po)
                    ik = False if pk is False else [[pk2[k] for k in l] for l in pk]
                except KeyError as e:
                    viol('consistency:%s:partition-after-in-place-edit-names-unknown-key' % mode, error=str(e)[:100], **d2)
                    continue
                r = ref2[weakly]
                if (io is False) != (r is False):
                    viol('consistency:%s:verdict-after-in-place-edit(impl=%s,def=%s)' % (mode, io is not False, r is not False),
                         impl=io, definition=r, **d2)
                elif io is not False and [sorted(l) for l in io] != [sorted(l) for l in r]:
                    viol('consistency:%s:partition-differs-after-in-place-edit' % mode, impl=io, definition=r, **d2)
                if io != ik:
                    viol('consistency_indices:%s:differs-from-object-variant-after-in-place-edit' % mode, objects=io, keys=ik, **d2)
            try:
                dd = consistency_diagnostics(bb, extended=True, uses_facts=False, on_inconsistent='silent')
                res['evals'] += 1
                bump('diagnostics_checked')
                for k, v in (('belief_base_consistent', ref2[False] is not False),
                             ('belief_base_weakly_consistent', ref2[True] is not False)):
                    if dd.get(k) is not v:
                        viol('diagnostics:after-in-place-edit:flag:%s(impl=%s,def=%s)' % (k, dd.get(k), v), **d2)
            except Exception as e:
                viol('diagnostics:after-in-place-edit:exception:%s' % type(e).__name__, error=str(e)[:200], **d2)
            for weakly in (False, True):
                if ref2[weakly] is not False and cur:
                    continue
                mode = 'extended' if weakly else 'strict'
                q = gen.gen_queries(rng, sig, cur or conds, 1)
                for (system, p) in rng.sample(impl.CONFIGS, 2):
                    if system == 'c-inference' and weakly:
                        continue
                    res['evals'] += 1
                    bump('refusals_checked')
                    bump('refusals_checked_after_in_place_edit')
                    try:
                        df = impl.ask(bb, system, p, impl.mk_queries(q), weakly=weakly)
                        viol('refusal:%s:%s:answered-inconsistent-base-after-in-place-edit' % (impl.cfg_name(system, p), mode),
                             query=fml.cond_text(*q[0]), answer=impl.results(df), **d2)
                    except Exception as e:
                        bump('refusal_exception_type', type(e).__name__)
            if not cur:
                break

    # ---------------------------------------------------------------- refusal
    for weakly in (False, True):
        if ref[weakly] is not False and n:
            continue
        mode = 'extended' if weakly else 'strict'
        cfgs = rng.sample(impl.CONFIGS, 3)
        q = gen.gen_queries(rng, sig, conds, 1)
        for (system, p) in cfgs:
            if system == 'c-inference' and weakly:
                continue
            res['evals'] += 1
            bump('refusals_checked')
            cname = impl.cfg_name(system, p)
            try:
                df = impl.ask(impl.mk_bb(sig, conds, keys=keys), system, p, impl.mk_queries(q), weakly=weakly)
                viol('refusal:%s:%s:answered-%s-base' % (cname, mode, 'empty' if not n else 'inconsistent'),
                     query=fml.cond_text(*q[0]), answer=impl.results(df))
            except Exception as e:
                bump('refusal_exception_type', type(e).__name__)
    res['sample'] = {'base': bdesc, 'class': cls, 'strict_partition': ref[False], 'extended_partition': ref[True]}
    return res

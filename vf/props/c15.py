"""C15: CNF encodings are faithful and correction-set enumeration is exact (runtime contracts on the real functions) (DESIGN.md section 7, C15)."""
from .. import fml, gen, refmodel as rm
from .. import impl, contracts
from ..fml import V, Not, And, Or, TOP, BOT
from .opcommon import h, base_desc

ID = 'C15'
LEVEL = 'exploration'
RULE = ('runtime contracts (post-conditions recorded, never raising) on TseitinTransformation.belief_base_to_cnf / '
        'query_to_cnf, OptimizerRC2.minimal_correction_subsets and the z3 enumerators get_all_xi_i, active while '
        'the REAL operators (System W, lex_inf, c-inference; rc2 with several SAT engines, z3) answer generated '
        'queries, so hard/soft combinations are exactly those that arise; a share of the cases repeats the run '
        'with a budget that expires at the k-th clock observation (an enumeration may raise, what it returns is '
        'judged). (a) every produced clause set + every '
        'complete assignment of the atoms is judged by an own DPLL and must be satisfiable iff the assignment '
        'verifies / falsifies / does not falsify the conditional (formulas to depth 3, Top/Bottom, repeated atoms, '
        'tautologies); EXHAUSTIVE part: all conditionals (B|A) with A, B of depth <= 1 over {a,b,Top,Bottom}. '
        '(b) every enumeration result must equal, each set once, the inclusion-minimal members of {falsified soft '
        'conditionals of w : w satisfies the hard clauses (DPLL)} computed by world enumeration. Non-trivial = CNF '
        'with >= 2 clauses or an auxiliary variable / family with >= 2 minimal sets or a set of size >= 2; '
        'distinct by hash(stage, conditional or family+hard clauses).')
ASSUMPTIONS = ['<= 7 atoms per base+query (all assignments enumerated)',
               'hard clauses are judged jointly by DPLL (shared auxiliary variables included)']
TRUSTED = ['the 40-line DPLL vf/sat.py (self-tested against brute force)']
FLOOR = {'quick': 700, 'thorough': 7000}
BUDGET = {'quick': 100, 'thorough': 1500}
N = {'quick': 460, 'thorough': 6000}
REQUIRED = {'quick': {'cnf_checked': 3000, 'mcs_checked': 1500, 'mcs_z3_checked': 250, 'mcs_nontrivial': 150,
                      'exhaustive_conditionals': 1600},
            'thorough': {'cnf_checked': 50000, 'mcs_checked': 30000, 'mcs_z3_checked': 5000, 'mcs_nontrivial': 3000,
                         'exhaustive_conditionals': 1600}}
ENGINES_Q = ['rc2', 'rc2-g4', 'rc2-cd', 'rc2-m22']
RECYCLE = 80

D1 = None


def depth1():
    d0 = [V('a'), V('b'), TOP, BOT]
    return d0 + [Not(x) for x in d0] + [(op, x, y) for op in ('and', 'or') for x in d0 for y in d0]


def cases(tier, seed):
    from .. import engines
    out = []
    eng = ENGINES_Q
    if tier == 'thorough':
        ok, _ = engines.usable()
        eng = ['rc2'] + ['rc2-' + e for e in ok]
    for i in range(40):
        out.append({'prop': ID, 'seed': seed, 'idx': i, 'kind': 'exhaustive', 'chunk': i, 'of': 40})
    for i in range(40, N[tier]):
        out.append({'prop': ID, 'seed': seed, 'idx': i, 'kind': 'operators', 'engine': eng[i % len(eng)]})
    return out


def run_case(case):
    from inference.tseitin_transformation import TseitinTransformation
    from inference.inference_manager import create_epistemic_state
    rng = gen.rng_for(case['seed'], ID, case['idx'])
    res = {'evals': 0, 'nontrivial': [], 'violations': [], 'inconclusive': [], 'counters': {}}
    contracts.LOG.reset()
    contracts.install_cnf_contracts()
    contracts.install_mcs_contracts()
    contracts.install_z3_enum_contracts()
    try:
        if case['kind'] == 'exhaustive':
            global D1
            if D1 is None:
                D1 = depth1()
            pairs = [(B, A) for B in D1 for A in D1]
            mine = pairs[case['chunk']::case['of']]
            # several conditionals per base so that the id pool is shared
            es = None
            for gi, j in enumerate(range(0, len(mine), 8)):
                grp = mine[j:j + 8]
                bb = impl.mk_bb(['a', 'b'], grp)
                if es is not None and gi % 2 == 1:
                    # the SAME epistemic state translated again for another base under the same keys
                    # (a base revised in place): every dictionary entry must be the CNF of the current rule
                    es['belief_base'] = bb
                    contracts.LOG.bump('retranslations_of_one_state')
                else:
                    es = create_epistemic_state(bb, 'system-w', 'z3', 'rc2', False)
                t = TseitinTransformation(es)
                t.belief_base_to_cnf(True, True, True)
                t.query_to_cnf(impl.mk_cond(*grp[0]))
                contracts.LOG.bump('exhaustive_conditionals', len(grp))
            res['sample'] = {'kind': 'exhaustive', 'conditional': fml.cond_text(*mine[0]), 'total': len(pairs)}
        else:
            eng = case['engine']
            weakly = rng.random() < 0.25
            fam = rng.choices(['rand', 'indep', 'd4', 'chain', 'weak'], [6, 3, 1, 1, 2 if weakly else 0])[0]
            kw = dict(depth=rng.choice([1, 2, 3, 3]), p_const=0.1) if fam == 'rand' else {}
            sig, conds, fam = gen.gen_base(rng, 'weak_or_strong' if weakly else 'strong', family=fam, **kw)
            qs = gen.gen_queries(rng, sig, conds, 5, depth=3)
            if fam == 'd4':
                qs[0] = gen.D4_QUERY
            elif rng.random() < 0.15:
                # atoms spelled like Boolean constants of the solver layer are ordinary atoms
                m = dict(zip(sig, rng.sample(['true', 'false', 'top', 'True', 'ite', 'and'], min(len(sig), 2)) + list(sig)[2:]))
                sig = [m[a] for a in sig]
                conds = [(fml.rename(B, m), fml.rename(A, m)) for (B, A) in conds]
                qs = [(fml.rename(B, m), fml.rename(A, m)) for (B, A) in qs]
            plan = [('system-w', eng), ('lex_inf', eng), ('system-w', 'z3'), ('lex_inf', 'z3')]
            if not weakly and len(conds) <= 5:
                plan.append(('c-inference', eng))
            reuse = rng.random() < 0.2
            undo = []
            if reuse:
                # ONE optimizer object per epistemic state serves all enumerations of a run (different hard
                # clauses, different ignore lists): an enumeration is a function of its arguments, not of what
                # the object enumerated before
                import inference.optimizer as _opt
                memo = {}

                def shared_optimizer(es_, _orig=_opt.create_optimizer):
                    k = id(es_)
                    if k not in memo:
                        memo[k] = (es_, _orig(es_))
                    return memo[k][1]
                import inference.c_inference as _m1, inference.system_w as _m2, inference.lex_inf as _m3
                for mod in (_m1, _m2, _m3):
                    if getattr(mod, 'create_optimizer', None) is _opt.create_optimizer:
                        undo.append((mod, mod.create_optimizer))
                        mod.create_optimizer = shared_optimizer
                contracts.LOG.bump('runs_with_one_optimizer_object_per_state' if undo else 'optimizer_reuse_not_attached')
            try:
                for (system, p) in plan:
                    try:
                        impl.ask(impl.mk_bb(sig, conds), system, p, impl.mk_queries(qs), weakly=weakly)
                    except Exception as e:
                        if type(e).__name__ == 'SoftTimeout':
                            raise
                        res['inconclusive'].append('%s/%s raised %s: %s' % (system, p, type(e).__name__, str(e)[:100]))
            finally:
                for mod, orig in undo:
                    mod.create_optimizer = orig
            if rng.random() < 0.15:
                # the same enumerations under a budget that runs out at the k-th look at the clock (logical
                # clock, vf/instrument.py): an enumeration may give up by raising, but whatever it RETURNS is
                # still judged by the contracts - a truncated family returned as if it were complete is caught
                from .. import instrument
                dl = instrument.DeadlineFaults()
                dl.install()
                try:
                    system, p = rng.choice(plan)
                    budget = rng.choice([dict(total_timeout=1000), dict(inference_timeout=1000),
                                         dict(total_timeout=1000, preprocessing_timeout=400)])
                    dl.arm(None)
                    try:
                        impl.ask(impl.mk_bb(sig, conds), system, p, impl.mk_queries(qs), weakly=weakly, **budget)
                    except Exception as e:
                        if type(e).__name__ == 'SoftTimeout':
                            raise
                    n = dl.count
                    for k in sorted(rng.sample(range(1, n + 1), min(n, 6))):
                        dl.arm(k)
                        contracts.LOG.bump('runs_with_budget_expiring_at_kth_observation')
                        try:
                            impl.ask(impl.mk_bb(sig, conds), system, p, impl.mk_queries(qs), weakly=weakly, **budget)
                        except Exception as e:
                            if type(e).__name__ == 'SoftTimeout':
                                raise
                            contracts.LOG.bump('budget_expiry_raised')
                finally:
                    dl.uninstall()
            res['sample'] = {'kind': 'operators', 'base': base_desc(sig, conds), 'engine': eng,
                             'mode': 'extended' if weakly else 'strict',
                             'queries': [fml.cond_text(*q) for q in qs[:3]],
                             'contract_evaluations': dict((k, v) for k, v in contracts.LOG.counters.items() if isinstance(v, int))}
    finally:
        contracts.uninstall()
    L = contracts.LOG
    ce = L.counters.pop('contract_error_examples', [])
    if L.counters.get('contract_errors'):
        res['inconclusive'].append('contract raised: %s' % ce[:2])
    res['counters'] = L.counters
    res['evals'] = L.counters.get('cnf_checked', 0) + L.counters.get('mcs_checked', 0) + L.counters.get('mcs_z3_checked', 0)
    res['nontrivial'] = list(set(L.nontrivial))
    for v in L.violations:
        v['detail']['case_kind'] = case['kind']
        res['violations'].append(v)
    return res

"""C08: operators are ordered by inclusion p <= Z <= W <= lex and p <= c <= W (DESIGN.md section 7, C08)."""
from .. import fml, gen, corpus
from .. import impl
from .opcommon import h, base_desc

ID = 'C08'
LEVEL = 'exploration'
RULE = ('relational monitor on the result columns of the real operators for the same (base, queries): the '
        'hand-built witness corpus (vf/witness.py), small generated bases incl. shaped families with tie-forcing '
        'queries (strict and extended mode), the shipped random_large corpus (6-40 atoms quick, 6-80 thorough; z3 back-ends up to 40) and other '
        'shipped corpora with base-derived queries, and disjoint unions of generated bases (10-40 atoms). A row '
        'with p&!Z, Z&!W, W&!lex (per back-end, both modes), p&!c or c&!W (strict) is a violation. '
        'Non-trivial = row whose chain of answers is not constant (some operator True, some False); distinct by '
        'hash(base, query, mode).')
ASSUMPTIONS = ['no world enumeration: detects inconsistency between operators, not a common error of all of them',
               'c-inference is run on bases with <= 30 conditionals (cost)']
TRUSTED = ['the inclusion theorems of the cited papers (validated on the reference semantics, DESIGN.md 7 C09)']
FLOOR = {'quick': 60, 'thorough': 400}
BUDGET = {'quick': 110, 'thorough': 1800}
HARD_TIMEOUT = 400
SOFT_TIMEOUT = 300
N = {'quick': 420, 'thorough': 3000}

CHAIN = [('p-entailment', 'system-z'), ('system-z', 'system-w/rc2'), ('system-z', 'system-w/z3'),
         ('system-w/rc2', 'lex_inf/rc2'), ('system-w/z3', 'lex_inf/z3'),
         ('p-entailment', 'c-inference/rc2'), ('c-inference/rc2', 'system-w/rc2'), ('c-inference/rc2', 'system-w/z3')]


def cases(tier, seed):
    out = []
    for i in range(N[tier]):
        k = i % 20
        kind = ('small-strict' if k < 8 else 'small-ext' if k < 12 else 'corpus' if k < 16
                else 'union' if k < 19 else 'other')
        out.append({'prop': ID, 'seed': seed, 'idx': i, 'kind': kind, 'tier': tier})
    # large cases first (so that they do not form the tail of the run), but only a bounded number of them:
    # the rest keep their place, otherwise a time budget would be spent on corpus bases alone
    big = [c for c in out if c['kind'] in ('corpus', 'other', 'union')]
    # ... preceded by a block of the (cheap) small cases, where the shaped families live
    from .. import witness
    wit = [{'prop': ID, 'seed': seed, 'idx': 10 ** 6 + i, 'kind': 'witness', 'witness': i, 'tier': tier}
           for i in range(len(witness.WITNESSES))]
    head = (wit + [c for c in out if c['kind'] == 'small-strict'][:80] + [c for c in out if c['kind'] == 'small-ext'][:30]
            + big[:160])
    hs = {id(c) for c in head}
    return head + [c for c in out if id(c) not in hs]


def run_case(case):
    rng = gen.rng_for(case['seed'], ID, case['idx'])
    kind = case['kind']
    res = {'evals': 0, 'nontrivial': [], 'violations': [], 'inconclusive': [], 'counters': {}}
    cnt = res['counters']

    def bump(k, sub=None, n=1):
        if sub is None:
            cnt[k] = cnt.get(k, 0) + n
        else:
            d = cnt.setdefault(k, {})
            d[sub] = d.get(sub, 0) + n
    modes = [False]
    src = kind
    if kind == 'witness':
        # the hand-built corpus of delicate inputs (vf/witness.py) with its own and generated tie-forcing queries
        from .. import witness
        from parser.Wrappers import parse_belief_base, parse_queries
        name, sigt, rules, qtexts, extended_only = witness.WITNESSES[case['witness']]
        bb0 = parse_belief_base(witness.text(sigt, rules))
        sig = list(bb0.signature)
        conds = [(fml.from_pysmt(c.consequence), fml.from_pysmt(c.antecedence)) for c in bb0.conditionals.values()]
        qs = [(fml.from_pysmt(c.consequence), fml.from_pysmt(c.antecedence))
              for c in parse_queries(','.join(qtexts)).conditionals.values()]
        if len(sig) <= 7:
            qs += gen.gen_queries(rng, sig, conds, 6, p_tie=0.8, extra_atom_p=0.0)
        modes = [True] if extended_only else [False, True]
        src = 'witness:' + name
        mk = lambda: impl.mk_bb(sig, conds)
    elif kind == 'small-strict':
        sig, conds, fam = gen.gen_base(rng, 'strong', family=rng.choices(
            [None, 'multiex', 'conjcons', 'indep', 'expchain', 'disjant'], [4, 2, 2.5, 1.5, 1, 1])[0])
        # shapes on which the operators genuinely differ: ties between correction sets (clause cost versus
        # cardinality), impacts that must grow exponentially along a chain of exceptions
        qs = gen.gen_queries(rng, sig, conds, 10, p_tie=0.75 if fam in ('conjcons', 'multiex', 'disjant') else 0.35)
        bump('family', fam)
        mk = lambda: impl.mk_bb(sig, conds)
    elif kind == 'small-ext':
        sig, conds, _ = gen.gen_base(rng, 'weak_or_strong')
        qs = gen.gen_queries(rng, sig, conds, 10)
        modes = [True]
        mk = lambda: impl.mk_bb(sig, conds)
    elif kind == 'union':
        ext = rng.random() < 0.3
        sig, conds = corpus.union_base(rng, want='weak' if ext else 'strong')
        qs = corpus.derived_queries(rng, sig, conds, 8, layers=corpus.real_partition(impl.mk_bb(sig, conds)))
        modes = [True] if ext else [False, True][:1 + (rng.random() < 0.3)]
        mk = lambda: impl.mk_bb(sig, conds)
    else:
        if kind == 'corpus':
            files = corpus.random_large(40 if case.get('tier') == 'quick' else 80)
            a, c, i, path = files[rng.randrange(len(files))]
        else:
            files = corpus.other_corpora()
            path = files[rng.randrange(len(files))]
        src = path.split('/examples/')[-1]
        bb0, sig, conds = corpus.load(path)
        if not conds:
            return res
        qs = corpus.derived_queries(rng, sig, conds, 6 if len(sig) <= 30 else 3, layers=corpus.real_partition(impl.mk_bb(sig, conds)))
        modes = [False, True][:1 + (rng.random() < 0.3)]
        mk = lambda: corpus.load(path)[0]
    rounds = [None]
    if kind == 'small-strict' and len(conds) >= 2 and rng.random() < 0.25:
        # history: ONE BeliefBase object serves all operators; then a rule is replaced in place under its key
        # (by one of the queries, if the base stays consistent) and all operators are asked again through new
        # managers.  The inclusions must hold among the answers for the edited base as well.
        shared = impl.mk_bb(sig, conds)
        mk = lambda: shared
        for _ in range(12):
            j = rng.randrange(len(conds))
            newc = rng.choice(qs) if rng.random() < 0.7 else \
                gen.rand_base(rng, nat=len(sig), ncond=1, depth=rng.choice([0, 1, 2]), p_const=0.0)[1][0]
            if newc[1] == fml.BOT or not set(fml.atoms(newc[0], fml.atoms(newc[1]))) <= set(sig):
                continue
            conds2 = list(conds)
            conds2[j] = newc
            if newc != conds[j] and gen.classify(sig, conds2)[0] == 'strong':
                rounds = [None, (j, newc)]
                bump('in_place_edit_histories')
                break
    bump('kind', kind)
    bump('atoms', str(10 * (len(sig) // 10)) + '+')
    bdesc = {'source': src, 'atoms': len(sig), 'conditionals': len(conds)}
    if len(conds) <= 8:
        bdesc.update(base_desc(sig, conds))
    for edit, weakly in [(e, w) for e in rounds for w in modes]:
        mode = 'extended' if weakly else 'strict'
        if edit is not None:
            j, newc = edit
            k = list(shared.conditionals.keys())[j]
            nc = impl.mk_cond(*newc)
            nc.index = k
            shared.conditionals[k] = nc
            bdesc = dict(bdesc, replaced_in_place={'position': j, 'by': fml.cond_text(*newc)})
            mode += ':after-in-place-edit'
        cols = {}
        for (system, p) in impl.CONFIGS:
            if system == 'c-inference' and (weakly or len(conds) > 30):
                continue
            if p == 'z3' and len(sig) > 40:
                continue
            cname = impl.cfg_name(system, p)
            try:
                df = impl.ask(mk(), system, p, impl.mk_queries(qs), weakly=weakly)
                cols[cname] = impl.results(df)
            except AssertionError as e:
                if 'inconsistent' in str(e) or 'empty' in str(e):
                    bump('base_refused_' + mode)
                    cols = None
                    break
                res['inconclusive'].append('%s %s AssertionError %s' % (cname, mode, str(e)[:100]))
            except Exception as e:
                if type(e).__name__ == 'SoftTimeout':
                    raise
                res['inconclusive'].append('%s %s on %s: %s: %s' % (cname, mode, src, type(e).__name__, str(e)[:120]))
        if not cols:
            continue
        for qi, q in enumerate(qs):
            row = {c: v[qi] for c, v in cols.items()}
            res['evals'] += 1
            vals = set(row.values())
            if len(vals) > 1:
                res['nontrivial'].append(h(bdesc, fml.cond_text(*q), mode))
                bump('rows_nonconstant')
            else:
                bump('rows_all_' + str(vals.pop()))
            for lo, hi in CHAIN:
                if lo in row and hi in row:
                    bump('inclusions_evaluated')
                    if row[lo] and not row[hi]:
                        res['violations'].append({
                            'sig': 'inclusion:%s<=%s:%s:violated' % (lo, hi, mode),
                            'detail': {'base': bdesc, 'query': fml.cond_text(*q), 'answers': row}})
    res['sample'] = {'base': bdesc, 'modes': ['extended' if m else 'strict' for m in modes],
                     'queries': [fml.cond_text(*q) for q in qs[:3]]}
    return res

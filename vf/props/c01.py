"""C01: p-entailment equals the definition (DESIGN.md section 7, C01)."""
from . import opcommon

ID = 'C01'
LEVEL = 'exploration'
CONFIGS = [('p-entailment', '')]
WEAKLY = False
WANT = 'strong'
RULE = ('random/shaped strongly consistent bases (vf/gen.py: random, penguin chains, independent layers, D4 shape; Top/Bottom, duplicates, facts, unfalsifiable conditionals) x 10 queries (random, base-derived, hostile, atoms outside the signature), built via parser text or programmatic API; judged by the tolerance-partition definition on enumerated worlds. Non-trivial = A&B and A&!B both satisfiable; distinct by hash(base, query, configuration). Additionally a bounded number of LARGE bases (8-100 atoms: shipped corpora, disjoint unions of generated bases) x 6 base-derived queries are judged by the same definition evaluated with satisfiability questions instead of world enumeration (vf/bigref.py: certified models, own z3 context, no MaxSAT/Tseitin/pysmt).')
ASSUMPTIONS = ['worlds are enumerated: bases of <= 6 atoms (incl. query atoms outside the signature) and <= 8 conditionals, plus a ~5% share of "wide" bases with 7-8 atoms, 9-13 conditionals or 5-7 layers; formula depth <= 3 (deep equivalent wrappers to depth 9)', 'reference semantics vf/refmodel.py is the definition quoted in the property (self-tested on textbook instances at start-up)']
TRUSTED = ["z3 'unsat' answers inside the large-base reference vf/bigref.py (its 'sat' answers are re-checked by the pure-Python evaluator)"]
FLOOR = {'quick': 300, 'thorough': 3000}
BUDGET = {'quick': 80, 'thorough': 900}
N = {'quick': 2500, 'thorough': 30000}
FAMILIES = [('chain', 8), ('indep', 16), ('d4', 18)]
selftest = opcommon.selftest_birds
HARD_TIMEOUT = 400
SOFT_TIMEOUT = 300


def cases(tier, seed):
    out = []
    n = N[tier]
    for i in range(n):
        fam = None
        for name, share in FAMILIES:
            if i % 100 < share:
                fam = name
                break
        out.append({'prop': ID, 'seed': seed, 'idx': i, 'family': fam})
    from ..witness import WITNESSES
    return ([{'prop': ID, 'seed': seed, 'idx': 10 ** 6 + i, 'witness': i} for i in range(len(WITNESSES))]
            + opcommon.big_cases(ID, tier, seed) + out)


def run_case(case):
    if case.get('big'):
        return opcommon.run_big_case(case, ID, CONFIGS, WEAKLY)
    return opcommon.run_operator_case(case, ID, CONFIGS, WEAKLY, WANT, nq=10)

"""C12: answers depend only on meaning, not on the presentation of the input (DESIGN.md section 7, C12)."""
from .. import fml, gen, refmodel as rm
from .. import impl
from ..fml import V, Not, And, Or
from .opcommon import h, base_desc

ID = 'C12'
LEVEL = 'exploration'
RULE = ('metamorphic monitor on programmatic bases BeliefBase(sig, {key: Conditional}): the answers of every '
        'operator/back-end/mode for a presentation tau(base), tau(query) must equal those for the plain '
        'presentation (keys 1..n in order), including raises-vs-answers. tau in {0-based keys, sparse keys, '
        'permuted insertion order with arbitrary distinct keys, reversed order, consistent atom renaming (incl. '
        'grammar-legal hostile names), signature permutation/extension, rewrites of antecedent/consequent in base '
        'or query with provably unchanged verification and falsification sets, query key changes} and '
        'compositions. Non-trivial = presentation differs and some query has A&B and A&!B both feasible; '
        'distinct by hash(base, transformation class, configuration, mode).')
ASSUMPTIONS = ['worlds enumerated (<= 6 atoms) only to certify that a rewrite preserves verification/falsification sets']
TRUSTED = []
FLOOR = {'quick': 300, 'thorough': 3000}
BUDGET = {'quick': 100, 'thorough': 1500}
N = {'quick': 600, 'thorough': 12000}
TRANSFORMS = ['rekey0', 'rekey-sparse', 'reorder', 'reverse', 'rename', 'signature', 'rewrite-base',
              'rewrite-query', 'query-key', 'compose']
INTERNAL_NAMES = ['eta_1', 'eta_2', 'mv_1', 'mf_1', 'mv_query', 'gamma-_1', 'eta_3', 'mf_2']
REQUIRED = {'quick': {'t_' + t: 8 for t in TRANSFORMS}, 'thorough': {'t_' + t: 200 for t in TRANSFORMS}}
HOSTILE_NAMES = ['A', 'B1', 'x1', 'a-b', 'a_b', 'Topp', 'bottom', 'Z9', 'q-1_x', 'signature1', 'v', 'f', 'nf',
                 'true', 'false', 'top', 'True', 'and', 'or', 'not', 'ite', 'distinct']
# names that LOOK like helper symbols a solver-based implementation might create for itself (Boolean ones; the
# integer ones of the c-inference encoding are exercised separately, see INTERNAL_NAMES)
HELPER_LIKE = ['%s_%d' % (w, i) for w in ('tol', 'sel', 'aux', 'tmp', 'var', 'lit', 'act', 'asm', 'ind', 'sw', 'x', 'y',
                                           's', 't', 'b', 'p', 'q', 'c', 'r', 'h', 'k', 'w', 'fresh', 'soft', 'hard',
                                           'layer', 'cond', 'block', 'tie') for i in (0, 1, 2)] + ['dummy1', 'dummy2', 'query', 'FV0', 'FV1']


def cases(tier, seed):
    out = [{'prop': ID, 'seed': seed, 'idx': i, 'transform': TRANSFORMS[i % len(TRANSFORMS)]}
           for i in range(N[tier])]
    for i in range(0, N[tier], 40):
        out[i]['transform'] = 'rename-internal'      # one-shot subprocess, see vf/rename_helper.py
    return out


def rewrite_cond(rng, B, A, sig):
    """(B', A') with identical verification and falsification sets, certified by truth tables"""
    for _ in range(10):
        k = rng.randrange(6)
        if k == 0:
            B2, A2 = And(A, B), A
        elif k == 1:
            B2, A2 = Or(Not(A), B), A
        elif k == 2:
            B2, A2 = fml.equivalent_rewrite(rng, B, sig), A
        elif k == 3:
            B2, A2 = B, fml.equivalent_rewrite(rng, A, sig)
        elif k == 4:
            B2, A2 = And(B, A), Not(Not(A))
        else:
            B2, A2 = fml.equivalent_rewrite(rng, B, sig), fml.equivalent_rewrite(rng, A, sig)
        at = sorted(fml.atoms(B, fml.atoms(A)) | fml.atoms(B2, fml.atoms(A2)) | set(sig))
        a, b, a2, b2 = (fml.tt(x, at) for x in (A, B, A2, B2))
        F = fml.full(len(at))
        if (a & b) == (a2 & b2) and (a & ~b & F) == (a2 & ~b2 & F) and (B2, A2) != (B, A):
            return B2, A2
    return Not(Not(B)), A


def falsified_exception_query(rng, sig, conds):
    """a query whose antecedent falsifies a rule of an upper tolerance layer: verifying and falsifying worlds tie
    there with a non-empty common set of falsified rules, and the lower layers decide"""
    cls, setup, base = gen.classify(sig, conds)
    if setup is None or len(setup.part) < 2:
        return None
    li = rng.randrange(1, len(setup.part))
    Bj, Aj = conds[rng.choice(list(setup.part[li]))]
    A = And(Aj, Not(Bj))
    if rng.random() < 0.4:
        A = And(A, fml.rand_formula(rng, sig, 0, 0.0))
    lo = conds[rng.choice(list(setup.part[rng.randrange(0, li)]))]
    B = rng.choice([lo[0], Not(lo[0]), fml.rand_formula(rng, sig, 0, 0.0), Not(lo[1])])
    return (B, A)


def run_internal(case, rng, res):
    import json as _json, os, subprocess, tempfile
    sig, conds, fam = gen.gen_base(rng, 'strong', family='rand', nat=rng.randint(2, 4), ncond=rng.randint(1, 4))
    qs = gen.gen_queries(rng, sig, conds, 4, extra_atom_p=0.0)
    m = dict(zip(sig, rng.sample(INTERNAL_NAMES, len(sig))))
    ren = lambda f: fml.rename(f, m)
    T = lambda B, A: fml.cond_text(B, A, 'min')
    cfgs = [list(c) for c in impl.CONFIGS]
    d = {'sig': sig, 'conds': [T(B, A) for B, A in conds], 'queries': [T(B, A) for B, A in qs],
         'sig2': [m[a] for a in sig], 'conds2': [T(ren(B), ren(A)) for B, A in conds],
         'queries2': [T(ren(B), ren(A)) for B, A in qs], 'weakly': False, 'configs': cfgs}
    fd, path = tempfile.mkstemp(suffix='.json', prefix='vfc12_')
    os.write(fd, _json.dumps(d).encode())
    os.close(fd)
    try:
        r = subprocess.run(['/venv/bin/python', os.path.join(os.path.dirname(os.path.dirname(__file__)), 'rename_helper.py'), path],
                           capture_output=True, text=True, timeout=150, env=dict(os.environ, INFOCF_LOGLEVEL='ERROR'))
    except subprocess.TimeoutExpired:
        res['inconclusive'].append('rename-internal subprocess watchdog')
        return res
    finally:
        os.remove(path)
    line = [x for x in r.stdout.splitlines() if x.startswith('RESULT ')]
    if not line:
        res['inconclusive'].append('rename-internal subprocess failed: ' + r.stderr[-200:])
        return res
    out = _json.loads(line[-1][7:])
    res['counters']['t_rename-internal'] = 1
    bdesc = base_desc(sig, conds)
    for (system, p) in impl.CONFIGS:
        cname = impl.cfg_name(system, p)
        a, b = out.get('plain:' + cname), out.get('renamed:' + cname)
        res['evals'] += 1
        res['nontrivial'].append(h(bdesc, m, cname))
        if isinstance(a, str):
            res['inconclusive'].append('plain presentation raised in subprocess: %s' % a)
        elif isinstance(b, str):
            res['violations'].append({'sig': 'presentation:rename-to-internal-symbol-name:exception:%s' % b.split()[1].rstrip(':'),
                                      'detail': {'base': bdesc, 'rename': m, 'config': cname, 'error': b, 'plain_answers': a}})
        elif a != b:
            res['violations'].append({'sig': 'presentation:rename-to-internal-symbol-name:%s:answer-changed' % cname,
                                      'detail': {'base': bdesc, 'rename': m, 'plain_answers': a, 'renamed_answers': b}})
    res['sample'] = {'base': bdesc, 'transform': 'rename-internal', 'rename': m}
    return res


def run_case(case):
    rng = gen.rng_for(case['seed'], ID, case['idx'])
    tname = case['transform']
    res = {'evals': 0, 'nontrivial': [], 'violations': [], 'inconclusive': [], 'counters': {}}
    cnt = res['counters']
    if tname == 'rename-internal':
        return run_internal(case, rng, res)

    def bump(k, sub=None, n=1):
        if sub is None:
            cnt[k] = cnt.get(k, 0) + n
        else:
            d = cnt.setdefault(k, {})
            d[sub] = d.get(sub, 0) + n
    weakly = rng.random() < 0.3
    order_matters = tname in ('reorder', 'reverse')
    # for the order transformations prefer layered shapes with exceptions (where a listing-order dependence of
    # the enumeration could change a tie), and more tie-forcing queries
    sig, conds, fam = gen.gen_base(rng, 'weak_or_strong' if weakly else 'strong',
                                   family=rng.choice([None, 'multiex', 'chain', 'conjcons', 'multiex'] if order_matters else
                                                     [None, None, None, 'multiex', 'chain', 'conjcons', 'indep']))
    wq = None
    if tname in ('rewrite-base', 'compose', 'rewrite-query', 'reorder', 'reverse', 'rekey-sparse', 'rekey0') and rng.random() < (0.4 if tname in ('rewrite-base', 'compose') else 0.15):
        # a base of the witness corpus (shapes on which correction-set cost and cardinality disagree, ties ...)
        from .. import witness
        wi = rng.randrange(len(witness.WITNESSES))
        if tname in ('rewrite-base', 'compose') and rng.random() < 0.7:
            # shapes on which the cost of a correction set (violated clauses) and its cardinality disagree: a
            # re-spelling of a rule changes its clause count and nothing else
            cc = [i for i, w_ in enumerate(witness.WITNESSES)
                  if w_[0].startswith(('cost-', 'superset', 'two-rule', 'three-way', 'minimum-set', 'penguin-defaults'))]
            wi = rng.choice(cc)
        wname, sig, conds, wq, ext_only = witness.asts(wi)
        if len(sig) <= 8:
            weakly = bool(ext_only) or weakly
            fam = 'witness:' + wname
            bump('witness_bases')
        else:
            wq = None
            sig, conds, fam = gen.gen_base(rng, 'weak_or_strong' if weakly else 'strong')
    twins = conds and tname in ('rewrite-base', 'compose', 'reorder') and rng.random() < 0.6 and not wq
    if twins:
        # an identically spelled duplicate of one rule (counted twice by lexicographic inference); the
        # transformation below re-spells exactly one of the two copies
        conds = list(conds) + [conds[rng.randrange(len(conds))]]
    n = len(conds)
    qs = gen.gen_queries(rng, sig, conds, 6, extra_atom_p=0.0, p_tie=0.8 if twins else 0.7 if order_matters else 0.4)
    if wq:
        qs[:len(wq[:4])] = wq[:4]
    if rng.random() < 0.5 and conds and not wq:
        qs[0] = conds[0]                     # the first rule as a query (direct inference)
    if order_matters or (tname in ('compose', 'rekey0', 'rekey-sparse') and rng.random() < 0.5):
        for qi in (2, 3, 4):
            q = falsified_exception_query(rng, sig, conds)
            if q is not None:
                qs[qi] = q
                bump('queries_falsifying_an_upper_layer_rule')
    mode = 'extended' if weakly else 'strict'
    bdesc = base_desc(sig, conds)

    # ---- the transformed presentation ------------------------------------------------
    sig2, conds2, qs2 = list(sig), list(conds), list(qs)
    keys2 = list(range(1, n + 1))
    qkeys2 = list(range(1, len(qs) + 1))
    tdesc = {}

    def t_rekey0():
        nonlocal keys2
        keys2 = list(range(0, n))
        if rng.random() < 0.5:
            rng.shuffle(keys2)                 # 0-based, not in listing order (key 0 may belong to an exception)
        tdesc['keys'] = keys2

    def t_sparse():
        nonlocal keys2
        keys2 = sorted(rng.sample(range(-n - 2, 5 * n + 5), n))
        if rng.random() < 0.5:
            rng.shuffle(keys2)
        if n and rng.random() < 0.5:
            # the key len+1 is in use (the slot a 'next free index' computed from the length would take),
            # preferably by the first rule, which is often asked as a query
            j = 0 if rng.random() < 0.6 else rng.randrange(n)
            if n + 1 in keys2:
                i = keys2.index(n + 1)
                keys2[i], keys2[j] = keys2[j], keys2[i]
            else:
                keys2[j] = n + 1
        tdesc['keys'] = keys2

    def t_reorder():
        nonlocal conds2, keys2
        perm = list(range(n))
        rng.shuffle(perm)
        conds2 = [conds2[i] for i in perm]
        keys2 = [keys2[i] for i in perm]       # same key for the same conditional, other insertion order
        if rng.random() < 0.5:
            keys2 = list(range(1, n + 1))      # or: keys follow the new order
        tdesc['order'] = perm
        tdesc['keys'] = keys2

    def t_reverse():
        nonlocal conds2, keys2
        conds2 = conds2[::-1]
        keys2 = list(range(n, 0, -1)) if rng.random() < 0.5 else list(range(1, n + 1))
        tdesc['keys'] = keys2

    def t_rename():
        nonlocal sig2, conds2, qs2
        names = rng.sample(HELPER_LIKE if rng.random() < 0.5 else HOSTILE_NAMES + HELPER_LIKE[:12], len(sig))
        m = dict(zip(sig, names))
        sig2 = [m.get(a, a) for a in sig2]
        conds2 = [(fml.rename(B, m), fml.rename(A, m)) for (B, A) in conds2]
        qs2 = [(fml.rename(B, m), fml.rename(A, m)) for (B, A) in qs2]
        tdesc['rename'] = m

    def t_signature():
        nonlocal sig2
        sig2 = list(sig2)
        rng.shuffle(sig2)
        if rng.random() < 0.6:
            sig2 += ['u%d' % i for i in range(rng.randint(1, 3))]
        tdesc['signature'] = sig2

    def t_rewrite_base():
        nonlocal conds2
        idx = rng.sample(range(n), rng.randint(1, n))
        dup = [i for i in range(n) if conds2.count(conds2[i]) > 1]
        if dup and rng.random() < 0.8:
            # exactly one copy of a duplicated rule is re-spelled, the other copies stay as they are
            i = rng.choice(dup)
            idx = [j for j in idx if conds2[j] != conds2[i]] + [i]
            bump('rewrite_one_copy_of_duplicate')
        conds2 = [rewrite_cond(rng, B, A, sig) if i in idx else (B, A) for i, (B, A) in enumerate(conds2)]
        tdesc['rewritten_base'] = [fml.cond_text(*c) for c in conds2]

    def t_rewrite_query():
        nonlocal qs2
        qs2 = [rewrite_cond(rng, B, A, sig) for (B, A) in qs2]
        tdesc['rewritten_queries'] = [fml.cond_text(*c) for c in qs2]

    def t_qkey():
        nonlocal qkeys2
        qkeys2 = rng.sample(range(-5, 50), len(qs))
        tdesc['query_keys'] = qkeys2
    T = {'rekey0': [t_rekey0], 'rekey-sparse': [t_sparse], 'reorder': [t_reorder], 'reverse': [t_reverse],
         'rename': [t_rename], 'signature': [t_signature], 'rewrite-base': [t_rewrite_base],
         'rewrite-query': [t_rewrite_query], 'query-key': [t_qkey]}
    if tname == 'compose':
        ks = rng.sample(sorted(T), rng.randint(2, 4))
        if twins and 'rewrite-base' not in ks:
            ks.append('rewrite-base')
        for k in ks:
            T[k][0]()
    else:
        T[tname][0]()
    bump('t_' + tname)
    for k in keys2:
        bump('key_class', 'zero' if k == 0 else 'in-1..n' if 1 <= k <= n else 'beyond-n')

    two_calls = rng.random() < 0.35
    if two_calls:
        bump('transformed_presentation_asked_in_a_later_call')
        tdesc['asked_in_second_call_on_one_manager'] = True
    base = rm.Base(sig, conds)
    st = rm.Setup(base, weakly)
    nontriv = any((base.q(B, A)[0] & st.feas) and (base.q(B, A)[1] & st.feas) for (B, A) in qs)
    for (system, p) in impl.CONFIGS:
        if system == 'c-inference' and weakly:
            continue
        cname = impl.cfg_name(system, p)

        def run(s, c, k, q, qk):
            try:
                if k is not None and two_calls:
                    # the transformed presentation is asked in a LATER call on a manager that has already
                    # answered (an answer is an answer, whichever call it comes from)
                    from inference.inference_manager import InferenceManager
                    args = dict(weakly=weakly)
                    if p:
                        args['pmaxsat_solver'] = p
                    m = InferenceManager(impl.mk_bb(s, c, keys=k), system, **args)
                    m.inference(impl.mk_queries(q[:2], keys=qk[:2]))
                    return impl.results(m.inference(impl.mk_queries(q, keys=qk)))
                df = impl.ask(impl.mk_bb(s, c, keys=k), system, p, impl.mk_queries(q, keys=qk), weakly=weakly)
                return impl.results(df)
            except Exception as e:
                if type(e).__name__ == 'SoftTimeout':
                    raise
                return ('EXC', type(e).__name__, str(e)[:150])
        r0 = run(sig, conds, None, qs, None)
        r1 = run(sig2, conds2, keys2, qs2, qkeys2)
        res['evals'] += 1
        if nontriv:
            res['nontrivial'].append(h(bdesc, tname, tdesc, cname, mode))
        if isinstance(r0, tuple):
            res['inconclusive'].append('plain presentation raised under %s %s: %s %s' % (cname, mode, r0[1], r0[2]))
            continue
        if isinstance(r1, tuple):
            res['violations'].append({
                'sig': 'presentation:%s:%s:%s:exception:%s' % (tname, cname, mode, r1[1]),
                'detail': {'base': bdesc, 'transformation': tdesc, 'queries': [fml.cond_text(*q) for q in qs],
                           'plain_answers': r0, 'error': r1[2]}})
        elif r0 != r1:
            qi = [i for i in range(len(qs)) if r0[i] != r1[i]][0]
            res['violations'].append({
                'sig': 'presentation:%s:%s:%s:answer-changed' % (tname, cname, mode),
                'detail': {'base': bdesc, 'transformation': tdesc, 'query': fml.cond_text(*qs[qi]),
                           'plain_answers': r0, 'transformed_answers': r1}})
    res['sample'] = {'base': bdesc, 'mode': mode, 'transform': tname, 'transformation': tdesc,
                     'queries': [fml.cond_text(*q) for q in qs[:3]]}
    return res

"""C14: time budgets never produce an unflagged wrong answer (fault enumeration by logical index) (DESIGN.md section 7, C14)."""
from .. import fml, gen, corpus
from .. import impl, instrument
from .opcommon import h, base_desc

ID = 'C14'
LEVEL = 'fault_enumeration'
RULE = ('per case (operator/back-end, base, query batch, budget setting in {total, preprocessing, per-query, '
        'combinations}, sequential or parallel): a calibration run with budgets set and no fault gives the '
        'reference rows (which must equal an un-budgeted run) and the number of observation points; then ONE RUN '
        'PER FAULT POINT: (D) every Deadline read from the k-th on says expired / 0 ms left, k = 1..N_D; '
        '(A) the k-th z3 Optimize.check() returns unknown without running, (B) after running, k = 1..N_Z '
        '(all points when N <= 48, else a stratified sample); (R) NO injection at all: a corpus base of 20-60 atoms is asked with REAL budgets that are fractions (1/16 ... 1) of the measured un-budgeted time of the same call, so that the real clock expires inside RC2 enumerations and inside z3 (the solver gives up by itself); whatever the timing, each row must be flagged-False or equal the reference, so the verdict does not depend on the speed of the machine (only the count of effective points does); (H) in parallel evaluation the k-th worker never returns (sleeping worker, virtualised join time-out), k = 1..#queries; (P) a virtual clock makes the preprocessing of the operator use 0.6x / 1.0x / 2.5x of the total budget, so that the budget arithmetic yields a zero or negative per-query budget. Each faulted run is followed by an un-faulted call '
        'on the same manager. Verdict per run: no exception escapes; every row is flagged (inference_timed_out '
        'or preprocessing_timed_out) with result False, or equals the reference. Decisions use logical indices '
        'only. Non-trivial = fault point that changed the outcome (some row flagged); distinct by '
        'hash(base, batch, configuration, budget, fault kind, k).')
ASSUMPTIONS = ['a real expiry inside a native solver call is represented by check() returning unknown (variants A/B), and additionally produced for real by fault kind R (fractional real budgets on mid-size corpus bases)',
               'kind R passes fractional budgets (floats, seconds); if a generous fractional budget alone raises, kind R detaches (counter real_budget_not_attached) instead of judging',
               'p-entailment and System Z never read the deadline: for them only the budget arithmetic is exercised']
TRUSTED = ['interposition wrappers on Deadline and z3.Optimize.check (vf/instrument.py)']
FLOOR = {'quick': 300, 'thorough': 3000}
BUDGET = {'quick': 110, 'thorough': 1800}
N = {'quick': 520, 'thorough': 7000}
REQUIRED = {'quick': {'fault_runs_D': 300, 'fault_runs_A': 80, 'fault_runs_B': 80, 'fault_runs_H': 40, 'fault_runs_P': 30, 'fault_runs_R': 20, 'parallel_fault_runs': 40},
            'thorough': {'fault_runs_D': 3000, 'fault_runs_A': 1500, 'fault_runs_B': 1500, 'fault_runs_H': 600, 'parallel_fault_runs': 400}}
RECYCLE = 40
BUDGETS = [dict(total_timeout=1000), dict(preprocessing_timeout=1000), dict(inference_timeout=1000),
           dict(total_timeout=1000, inference_timeout=500),
           dict(total_timeout=1000, preprocessing_timeout=400, inference_timeout=500)]
# (system, p, fault kinds that can be observed there)
PLAN = [('system-w', 'rc2', 'D'), ('lex_inf', 'rc2', 'D'), ('c-inference', 'rc2', 'D'),
        ('system-w', 'z3', 'D'), ('lex_inf', 'z3', 'D'),
        ('system-w', 'z3', 'A'), ('lex_inf', 'z3', 'A'), ('system-w', 'z3', 'B'), ('lex_inf', 'z3', 'B'),
        ('p-entailment', '', 'D'), ('system-z', '', 'D'),
        ('system-w', 'rc2', 'H'), ('lex_inf', 'z3', 'H'), ('c-inference', 'rc2', 'H'), ('system-z', '', 'H'),
        ('p-entailment', '', 'P'), ('system-z', '', 'P'), ('system-w', 'rc2', 'P'), ('lex_inf', 'z3', 'P')]
# real-clock runs (no injection): appended to the plan with their own share
PLAN_R = [('system-w', 'rc2'), ('lex_inf', 'z3'), ('system-w', 'z3'), ('lex_inf', 'rc2'), ('c-inference', 'rc2')]
N_R = {'quick': 20, 'thorough': 300}


def cases(tier, seed):
    out = []
    for i in range(N_R[tier]):
        s, p = PLAN_R[i % len(PLAN_R)]
        out.append({'prop': ID, 'seed': seed, 'idx': 100000 + i, 'system': s, 'p': p, 'fault': 'R', 'budget': {},
                    'multi': i % 6 == 5, 'big': True, 'hi': 40 if tier == 'quick' else 60})
    for i in range(N[tier]):
        s, p, kind = PLAN[i % len(PLAN)]
        out.append({'prop': ID, 'seed': seed, 'idx': i, 'system': s, 'p': p, 'fault': kind,
                    'budget': BUDGETS[(i // len(PLAN)) % len(BUDGETS)], 'multi': (i % 7 == 3) or kind == 'H',
                    'big': tier == 'thorough' and i % 25 == 0})
    return out


def run_case(case):
    if case['fault'] == 'R':
        return run_real(case)
    rng = gen.rng_for(case['seed'], ID, case['idx'])
    system, p, kind, budget, multi = case['system'], case['p'], case['fault'], case['budget'], case['multi']
    cname = impl.cfg_name(system, p)
    res = {'evals': 0, 'nontrivial': [], 'violations': [], 'inconclusive': [], 'counters': {}}
    cnt = res['counters']

    def bump(k, sub=None, n=1):
        if sub is None:
            cnt[k] = cnt.get(k, 0) + n
        else:
            d = cnt.setdefault(k, {})
            d[sub] = d.get(sub, 0) + n
    weakly = system != 'c-inference' and rng.random() < 0.2
    if case.get('big') and system != 'c-inference':
        files = corpus.random_large(40)
        a, c, i, path = files[rng.randrange(len(files))]
        _, sig, conds = corpus.load(path)
        weakly = False
        pool = corpus.derived_queries(rng, sig, conds, 4)
    else:
        # a truncated enumeration only matters when there are several minimal correction sets: shapes
        # with independent rules per layer and tie-forcing queries are over-weighted
        fam = rng.choices(['rand', 'chain', 'indep', 'd4', 'multiex'], [4, 1, 3, 1, 3])[0]
        kw = dict(nat=rng.randint(2, 4), ncond=rng.randint(2, 5)) if fam == 'rand' else {}
        if system == 'c-inference' and fam in ('d4', 'multiex'):
            fam = 'rand'
            kw = dict(nat=rng.randint(2, 4), ncond=rng.randint(2, 5))
        sig, conds, fam = gen.gen_base(rng, 'weak_or_strong' if weakly else 'strong', family=fam, **kw)
        pool = gen.gen_queries(rng, sig, conds, 4, extra_atom_p=0.0, p_tie=0.5)
    q1, q2 = pool[:3], pool[1:4]
    mode = 'extended' if weakly else 'strict'
    bdesc = {'atoms': len(sig), 'conditionals': len(conds)}
    if len(conds) <= 9:
        bdesc.update(base_desc(sig, conds))
    texts = [fml.cond_text(*q) for q in pool]
    btag = '+'.join(sorted(k.replace('_timeout', '') for k in budget))

    def viol(sig_, **detail):
        detail.update(base=bdesc, budget=budget, queries=texts, multi=multi)
        res['violations'].append({'sig': '%s:%s:%s:%s' % (sig_, cname, mode, 'parallel' if multi else 'sequential'),
                                  'detail': detail})

    from inference.inference_manager import InferenceManager

    def manager():
        args = dict(weakly=weakly)
        if p:
            args['pmaxsat_solver'] = p
        return InferenceManager(impl.mk_bb(sig, conds), system, **args)

    def rows(df):
        return [(bool(r), bool(t), bool(pt)) for r, t, pt in
                zip(df['result'], df['inference_timed_out'], df['preprocessing_timed_out'])]

    # ---- un-budgeted reference
    try:
        m = manager()
        ref1 = [x[0] for x in rows(m.inference(impl.mk_queries(q1)))]
        ref2 = [x[0] for x in rows(manager().inference(impl.mk_queries(q2)))]
    except Exception as e:
        if type(e).__name__ == 'SoftTimeout':
            raise
        res['inconclusive'].append('un-budgeted reference raised %s: %s' % (type(e).__name__, str(e)[:120]))
        return res

    clock = {'offset': 0, 'jump_ns': 0}
    if kind == 'P':
        # virtual clock for the budget arithmetic: the timer used by the preprocessing wrapper jumps forward
        # while the operator-specific preprocessing runs, as if it had used up (part of) the total budget
        import inference.inference as _ii
        from inference.inference import Inference as _Inf
        _orig_pc = _ii.perf_counter_ns
        _ii.perf_counter_ns = lambda: _orig_pc() + clock['offset']
        budget = {'total_timeout': 1000}
        _patched = []
        for cls in list(_Inf.__subclasses__()):
            if '_preprocess_belief_base' in cls.__dict__:
                orig_pp = cls.__dict__['_preprocess_belief_base']

                def pp(self_i, weakly_, deadline_, _o=orig_pp):
                    r = _o(self_i, weakly_, deadline_)
                    clock['offset'] += clock['jump_ns']
                    return r
                cls._preprocess_belief_base = pp
                _patched.append((cls, orig_pp))
    dl = instrument.DeadlineFaults()
    of = instrument.OptimizeFaults()
    mon = instrument.ProcMon() if multi else None
    sched = instrument.WorkerSchedule() if kind == 'H' else None
    dl.install()
    of.install()
    if mon:
        mon.install()
    if sched:
        sched.install()
    try:
        # ---- calibration: budgets on, no fault
        dl.arm(None)
        of.arm(None)
        try:
            m = manager()
            c1 = rows(m.inference(impl.mk_queries(q1), multi_inference=multi, **budget))
            nD, nZ = dl.count, of.count
            c2 = rows(m.inference(impl.mk_queries(q2), **budget))
        except Exception as e:
            if type(e).__name__ == 'SoftTimeout':
                raise
            viol('budget:exception-without-fault:%s' % type(e).__name__, error=str(e)[:200])
            return res
        finally:
            if mon:
                mon.cleanup()
                mon.reset()
        res['evals'] += 1
        if [x[0] for x in c1] != ref1 or [x[0] for x in c2] != ref2 or any(x[1] or x[2] for x in c1 + c2):
            viol('budget:budgets-alone-change-rows', budgeted=[c1, c2], unbudgeted=[ref1, ref2])
            return res
        if multi:
            # children count from the parent's value at fork time; parent-side observations are the
            # preprocessing ones.  Fault indices are taken relative to that value.
            nD = nD + 12
            nZ = 12 if (p == 'z3') else 0
        n = nD if kind == 'D' else nZ
        if kind == 'P':
            n = 3       # preprocessing 'takes' 0.6x, 1.0x, 2.5x of the total budget (virtual clock)
        if kind == 'H':
            n = len(q1)            # fault point = which worker never returns (virtualised join time-out)
        bump('observation_points_' + kind, cname, n)
        if n == 0:
            bump('cases_without_observation_point', cname)
            return res
        ks = list(range(1, n + 1))
        if len(ks) > 48:
            step = len(ks) / 40.0
            ks = sorted(set([1, 2, 3, n - 1, n] + [int(1 + j * step) for j in range(40)]))
        for k in ks:
            dl.arm(k if kind == 'D' else None)
            of.arm(k if kind in ('A', 'B') else None, kind if kind in ('A', 'B') else 'A')
            if kind == 'H':
                sched.hang = {k}
                mon.hung_keys = {k}
            if kind == 'P':
                clock['jump_ns'] = int([0.6, 1.0, 2.5][k - 1] * 1000 * 1e9)
            m = manager()
            tag = 'fault=%s,k=%d/%d' % (kind, k, n)
            bump('fault_runs_' + kind)
            if multi:
                bump('parallel_fault_runs')
            res['evals'] += 1
            try:
                r1 = rows(m.inference(impl.mk_queries(q1), multi_inference=multi, **budget))
            except Exception as e:
                if type(e).__name__ == 'SoftTimeout':
                    raise
                viol('budget:exception-escapes:%s:fault-%s' % (type(e).__name__, kind), at=tag,
                     budget_kinds=btag, error=str(e)[:200])
                continue
            finally:
                if mon:
                    hang_bit = mon.virtual_timeouts > 0
                    left = mon.leftovers(5.0)
                    mon.cleanup()
                    mon.reset()
                if sched:
                    sched.hang = set()
            if kind == 'H':
                if not hang_bit:
                    bump('hang_injection_not_reached')
                    continue
                if left:
                    viol('budget:process-left-behind-after-hung-worker', at=tag, leftovers=[list(x) for x in left])
            flagged = False
            bad = False
            for j, (r, t, pt) in enumerate(r1):
                if t or pt:
                    flagged = True
                    if r:
                        viol('budget:flagged-row-with-True:fault-%s' % kind, at=tag, row=j, rows=r1)
                        bad = True
                elif r != ref1[j]:
                    viol('budget:unflagged-wrong-answer:fault-%s' % kind, at=tag, row=j, rows=r1, reference=ref1)
                    bad = True
            if flagged:
                bump('fault_points_that_flagged_rows', cname)
                res['nontrivial'].append(h(bdesc, texts, cname, mode, btag, multi, kind, k))
            else:
                bump('fault_points_without_effect', cname)
            # ---- later call on the same manager, no fault
            dl.arm(None)
            of.arm(None)
            try:
                r2 = rows(m.inference(impl.mk_queries(q2), **budget))
            except Exception as e:
                if type(e).__name__ == 'SoftTimeout':
                    raise
                viol('budget:later-call-raises:%s:fault-%s' % (type(e).__name__, kind), at=tag, error=str(e)[:200])
                continue
            for j, (r, t, pt) in enumerate(r2):
                if t or pt:
                    if r:
                        viol('budget:later-call-flagged-row-with-True:fault-%s' % kind, at=tag, row=j, rows=r2)
                elif r != ref2[j]:
                    viol('budget:later-call-unflagged-wrong-answer:fault-%s' % kind, at=tag, row=j, rows=r2,
                         reference=ref2, first_call_rows=r1)
    finally:
        if kind == 'P':
            _ii.perf_counter_ns = _orig_pc
            for cls, orig_pp in _patched:
                cls._preprocess_belief_base = orig_pp
        if sched:
            sched.uninstall()
        if mon:
            mon.cleanup()
            mon.uninstall()
        of.uninstall()
        dl.uninstall()
    res['sample'] = {'base': bdesc, 'config': cname, 'mode': mode, 'budget': budget, 'parallel': multi,
                     'fault_kind': kind, 'observation_points': n, 'queries': texts, 'reference': [ref1, ref2]}
    return res


def run_real(case):
    """kind R: real budgets, real clock, no interposition.  Sound whatever the timing: rows are flagged-False or
    equal the un-budgeted reference; nothing escapes; a later un-budgeted call on the same manager is exact."""
    import time
    rng = gen.rng_for(case['seed'], ID, case['idx'])
    system, p, multi = case['system'], case['p'], case['multi']
    cname = impl.cfg_name(system, p)
    res = {'evals': 0, 'nontrivial': [], 'violations': [], 'inconclusive': [], 'counters': {}}
    cnt = res['counters']

    def bump(k, sub=None, n=1):
        if sub is None:
            cnt[k] = cnt.get(k, 0) + n
        else:
            d = cnt.setdefault(k, {})
            d[sub] = d.get(sub, 0) + n
    hi = 26 if system == 'c-inference' else case.get('hi', 60)
    files = [f for f in corpus.random_large(hi) if f[0] >= (12 if system == 'c-inference' else 20)]
    a, c, i, path = files[rng.randrange(len(files))]
    bb0, sig, conds = corpus.load(path)
    layers = corpus.real_partition(bb0)
    pool = corpus.derived_queries(rng, sig, conds, 5, layers)
    q1, q2 = pool[:4], pool[2:5]
    texts = [fml.cond_text(*q) for q in pool]
    bdesc = {'atoms': len(sig), 'conditionals': len(conds), 'file': path.split('/')[-1]}

    def viol(sig_, **detail):
        detail.update(base=bdesc, queries=texts, multi=multi)
        res['violations'].append({'sig': '%s:%s:strict:%s' % (sig_, cname, 'parallel' if multi else 'sequential'),
                                  'detail': detail})

    from inference.inference_manager import InferenceManager
    from parser.Wrappers import parse_belief_base

    def manager():
        args = {}
        if p:
            args['pmaxsat_solver'] = p
        return InferenceManager(parse_belief_base(path), system, **args)

    def rows(df):
        return [(bool(r), bool(t), bool(pt)) for r, t, pt in
                zip(df['result'], df['inference_timed_out'], df['preprocessing_timed_out'])]
    try:
        m = manager()
        t0 = time.perf_counter()
        df = m.inference(impl.mk_queries(q1))
        t_all = time.perf_counter() - t0
        ref1 = [x[0] for x in rows(df)]
        ref2 = [x[0] for x in rows(manager().inference(impl.mk_queries(q2)))]
        t_pre = float(m.epistemic_state.get('preprocessing_time', 0) or 0) / 1000.0
    except Exception as e:
        if type(e).__name__ == 'SoftTimeout':
            raise
        res['inconclusive'].append('un-budgeted reference raised %s: %s' % (type(e).__name__, str(e)[:120]))
        return res
    t_q = max((t_all - t_pre) / max(1, len(q1)), 1e-4)
    # a generous fractional budget must change nothing; if it raises, fractional budgets are not supported -> detach
    try:
        g = rows(manager().inference(impl.mk_queries(q1), total_timeout=1000.5, inference_timeout=500.25,
                                     preprocessing_timeout=400.5))
    except Exception as e:
        if type(e).__name__ == 'SoftTimeout':
            raise
        bump('real_budget_not_attached')
        return res
    res['evals'] += 1
    if [x[0] for x in g] != ref1 or any(x[1] or x[2] for x in g):
        viol('budget:budgets-alone-change-rows', budgeted=g, unbudgeted=ref1)
        return res
    mon = instrument.ProcMon() if multi else None
    if mon:
        mon.install()
    try:
        plans = []
        for fr in (1 / 16.0, 1 / 8.0, 1 / 4.0, 1 / 2.0, 1.0):
            plans.append(({'inference_timeout': max(t_q * fr, 0.0011)}, 'inference x%.3g' % fr))
            plans.append(({'total_timeout': max(t_pre + t_q * fr, 0.0011)}, 'total=pre+query x%.3g' % fr))
        plans.append(({'total_timeout': max(t_pre * 0.5, 0.0011)}, 'total=pre x0.5'))
        plans.append(({'preprocessing_timeout': max(t_pre * 0.5, 0.0011)}, 'preprocessing x0.5'))
        plans.append(({'total_timeout': max(t_pre + t_q * 0.5, 0.0011), 'inference_timeout': max(t_q * 0.25, 0.0011)},
                      'total+inference'))
        for budget, tag in plans:
            m = manager()
            bump('fault_runs_R')
            if multi:
                bump('parallel_fault_runs')
            res['evals'] += 1
            try:
                r1 = rows(m.inference(impl.mk_queries(q1), multi_inference=multi, **budget))
            except Exception as e:
                if type(e).__name__ == 'SoftTimeout':
                    raise
                viol('budget:exception-escapes:%s:fault-R' % type(e).__name__, at=tag, budget=budget, error=str(e)[:200])
                continue
            finally:
                if mon:
                    left = mon.leftovers(5.0)
                    mon.cleanup()
                    mon.reset()
            if multi and left:
                viol('budget:process-left-behind:fault-R', at=tag, leftovers=[list(x) for x in left])
            flagged = False
            for j, (r, t, pt) in enumerate(r1):
                if t or pt:
                    flagged = True
                    if r:
                        viol('budget:flagged-row-with-True:fault-R', at=tag, budget=budget, row=j, rows=r1)
                elif r != ref1[j]:
                    viol('budget:unflagged-wrong-answer:fault-R', at=tag, budget=budget, row=j, rows=r1, reference=ref1)
            if flagged:
                bump('fault_points_that_flagged_rows', cname)
                bump('real_budget_runs_that_flagged_rows', cname)
                res['nontrivial'].append(h(bdesc, texts, cname, 'strict', tag, multi, 'R'))
            else:
                bump('fault_points_without_effect', cname)
            try:
                r2 = rows(m.inference(impl.mk_queries(q2)))
            except Exception as e:
                if type(e).__name__ == 'SoftTimeout':
                    raise
                viol('budget:later-call-raises:%s:fault-R' % type(e).__name__, at=tag, error=str(e)[:200])
                continue
            for j, (r, t, pt) in enumerate(r2):
                if t or pt:
                    bump('later_call_rows_flagged_R')
                    if r:
                        viol('budget:later-call-flagged-row-with-True:fault-R', at=tag, row=j, rows=r2)
                elif r != ref2[j]:
                    viol('budget:later-call-unflagged-wrong-answer:fault-R', at=tag, row=j, rows=r2, reference=ref2,
                         first_call_rows=r1)
    finally:
        if mon:
            mon.cleanup()
            mon.uninstall()
    res['sample'] = {'base': bdesc, 'config': cname, 'mode': 'strict', 'parallel': multi, 'fault_kind': 'R',
                     'measured_s': {'preprocessing': round(t_pre, 4), 'per_query': round(t_q, 4)},
                     'queries': texts, 'reference': [ref1, ref2]}
    return res

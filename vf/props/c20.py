"""C20: saved ranking functions and metadata reload to behaviourally identical objects; a failing save leaves the object usable and unchanged (fault enumeration) (DESIGN.md section 7, C20)."""
import json
import os
import pathlib
import shutil
import subprocess
import sys
import tempfile

from .. import fml, gen, refmodel as rm
from .. import impl
from .opcommon import h, base_desc

ID = 'C20'
LEVEL = 'fault_enumeration'
RULE = ('ranking objects of all three kinds (System Z with/without extended mode and facts, c-representation, '
        'custom) with a RANDOM SUBSET of ranks already computed: save_ocf -> load_ocf in the same process and in a '
        'FRESH interpreter (subprocess that loads, continues lazy computation in a random order, completes all '
        'ranks, answers a query list): signature, ranks already present, completed ranks, impacts and acceptance '
        'verdicts must equal those of the live original. export/import_impacts, save/load_impacts, '
        'init_with_impacts(_list) and save/load_metadata with JSON-native metadata over the suffix classes .json, '
        '.pkl, .pickle, other, upper-case, none must round-trip. FAULTS, one run per fault point: target is a '
        'directory, parent missing, unpicklable member (lambda / open file in metadata), and the k-th write() of '
        'the pickle stream raising OSError for k = 1..N (N calibrated per object): the call must raise, and '
        'afterwards the same _optimizer/_csp objects are in place, ranks/impacts/metadata are unchanged, the '
        'object still ranks and accepts, and a subsequent save round-trips. Non-trivial = partially computed '
        'object (0 < computed < all) or a save that failed after >= 1 write; distinct by hash(object, scenario).')
ASSUMPTIONS = ['write faults are injected at the file object returned by pathlib.Path.open for the target path',
               'metadata values are JSON-native (str keys; None/bool/int/finite float/str/list/dict)']
TRUSTED = ['interposition on pathlib.Path.open (vf/props/c20.py)']
FLOOR = {'quick': 150, 'thorough': 1500}
BUDGET = {'quick': 110, 'thorough': 1500}
N = {'quick': 900, 'thorough': 8000}
REQUIRED = {'quick': {'fresh_process_reloads': 30, 'same_process_reloads': 80, 'write_fault_runs': 100,
                      'failed_saves_checked': 200, 'metadata_roundtrips': 150, 'impact_roundtrips': 40},
            'thorough': {'fresh_process_reloads': 600, 'same_process_reloads': 1500, 'write_fault_runs': 1000,
                         'failed_saves_checked': 2000, 'metadata_roundtrips': 1500, 'impact_roundtrips': 800}}
RECYCLE = 60
SUFFIXES = ['.json', '.pkl', '.pickle', '.meta', '.dat', '.JSON', '.PKL', '', '.txt']


def cases(tier, seed):
    kinds = ['system-z', 'c-rep', 'custom', 'system-z-ext']
    return [{'prop': ID, 'seed': seed, 'idx': i, 'kind': kinds[i % 4], 'fresh': i % 3 == 0} for i in range(N[tier])]


def rand_meta(rng, depth=2):
    def val(d):
        r = rng.random()
        if d <= 0 or r < 0.5:
            return rng.choice([None, True, False, 0, -3, 17, 2.5, 'x', 'ä ö', '', 10 ** 12])
        if r < 0.75:
            return [val(d - 1) for _ in range(rng.randint(0, 3))]
        return {rng.choice(['a', 'b', 'k 1', 'Z']): val(d - 1) for _ in range(rng.randint(0, 3))}
    return {rng.choice(['note', 'run', 'params', 'tag', 'x-y']) + str(i): val(depth) for i in range(rng.randint(1, 4))}


class FaultyFile:
    def __init__(self, f, fail_at, log):
        self._f, self._fail_at, self._log = f, fail_at, log

    def write(self, data):
        self._log['writes'] += 1
        if self._fail_at is not None and self._log['writes'] == self._fail_at:
            raise OSError(28, 'No space left on device (injected)')
        return self._f.write(data)

    def __getattr__(self, name):
        return getattr(self._f, name)

    def __enter__(self):
        return self

    def __exit__(self, *a):
        return self._f.__exit__(*a)


def run_case(case):
    from inference.preocf import PreOCF, RandomMinCRepPreOCF
    rng = gen.rng_for(case['seed'], ID, case['idx'])
    kind = case['kind']
    res = {'evals': 0, 'nontrivial': [], 'violations': [], 'inconclusive': [], 'counters': {}}
    cnt = res['counters']

    def bump(k, n=1):
        cnt[k] = cnt.get(k, 0) + n
    tmp = tempfile.mkdtemp(prefix='vfc20_')
    try:
        return _run(case, rng, kind, res, bump, tmp, PreOCF, RandomMinCRepPreOCF)
    finally:
        shutil.rmtree(tmp, ignore_errors=True)


def _run(case, rng, kind, res, bump, tmp, PreOCF, RandomMinCRepPreOCF):
    facts = None
    if kind == 'custom':
        n = rng.randint(1, 4)
        sig = gen.NAMES[:n]
        conds = []
        ranks = {fml.world_str(w, sig): rng.randint(0, 5) for w in range(1 << n)}
        mk = lambda: PreOCF.init_custom(dict(ranks), None, list(sig), metadata=None)
        desc = {'kind': kind, 'signature': sig, 'ranks': ranks if n <= 3 else '...'}
    else:
        want = 'weak' if kind == 'system-z-ext' else 'strong'
        kw = dict(family='rand', nat=rng.randint(2, 4), ncond=rng.randint(1, 5)) if kind == 'c-rep' else {}
        for _ in range(40):
            sig, conds, _ = gen.gen_base(rng, want, **kw)
            if len(sig) <= 5:
                break
        n = len(sig)
        if kind == 'system-z-ext' and rng.random() < 0.4:
            facts = [fml.to_text(fml.V(rng.choice(sig)), 'min')]
        if kind == 'c-rep':
            mk = lambda: PreOCF.init_random_min_c_rep(impl.mk_bb(sig, conds))
        elif kind == 'system-z':
            mk = lambda: PreOCF.init_system_z(impl.mk_bb(sig, conds))
        else:
            mk = lambda: PreOCF.init_system_z(impl.mk_bb(sig, conds), facts=facts, extended=True)
        desc = {'kind': kind, 'base': base_desc(sig, conds), 'facts': facts}
    worlds = [fml.world_str(w, sig) for w in range(1 << n)]

    def viol(sig_, **d):
        d['object'] = desc
        res['violations'].append({'sig': 'persist:%s:%s' % (sig_, kind), 'detail': d})
    try:
        o = mk()
    except ValueError as e:
        if facts:
            return res          # combination refused (C16's business)
        res['inconclusive'].append('construction raised %s' % str(e)[:100])
        return res
    ref = mk()
    ref_all = ref.compute_all_ranks()
    qs = gen.gen_queries(rng, sig, conds, 5, extra_atom_p=0.0) if conds else \
        [(fml.rand_formula(rng, sig, 1, 0.0), fml.rand_formula(rng, sig, 1, 0.0)) for _ in range(5)]
    qtext = ','.join(fml.cond_text(*q, style='min') for q in qs)
    ref_acc = [ref.conditional_acceptance(impl.mk_cond(*q)) for q in qs]
    ref_imp = list(getattr(ref, '_impacts', None) or []) or None

    # partial computation state
    k = rng.choice([0, len(worlds)] + [rng.randint(1, len(worlds) - 1)] * 4) if len(worlds) > 1 else rng.randint(0, 1)
    pre = rng.sample(worlds, k)
    if kind != 'custom':
        for w in pre:
            o.rank_world(w)
    partial = 0 < k < len(worlds) and kind != 'custom'
    meta = rand_meta(rng)
    for mk_, mv in meta.items():
        o.save_meta(mk_, mv)
    desc['precomputed_worlds'] = len(pre)

    def snapshot(x):
        return (id(getattr(x, '_optimizer', None)), id(getattr(x, '_csp', None)), dict(x.ranks),
                list(getattr(x, '_impacts', []) or []), json.dumps(x.metadata, sort_keys=True, default=repr))

    # ------------------------------------------------------------ round trip, same process
    p = os.path.join(tmp, 'obj' + rng.choice(['.pkl', '.ocf', '']))
    before = snapshot(o)
    try:
        o.save_ocf(p)
        l = PreOCF.load_ocf(p, trusted=True)
    except Exception as e:
        viol('save-load-raised:%s' % type(e).__name__, error=str(e)[:200])
        return res
    res['evals'] += 1
    bump('same_process_reloads')
    if snapshot(o) != before:
        viol('successful-save-changed-the-object')
    if list(l.signature) != list(sig):
        viol('loaded-signature-differs', got=list(l.signature))
    present = {w: r for w, r in o.ranks.items() if r is not None}
    if {w: r for w, r in l.ranks.items() if r is not None} != present:
        viol('loaded-precomputed-ranks-differ', got=dict(l.ranks), expected=present)
    order = list(worlds)
    rng.shuffle(order)
    lazy = {}
    try:
        for w in order[:max(1, len(order) // 2)]:
            lazy[w] = l.rank_world(w)
        la = l.compute_all_ranks()
    except Exception as e:
        viol('loaded-object-cannot-continue:%s' % type(e).__name__, error=str(e)[:200])
        la = None
    if la is not None:
        if any(lazy[w] != ref_all[w] for w in lazy) or dict(la) != dict(ref_all):
            viol('loaded-object-ranks-differ-after-continuation', got=dict(la), expected=dict(ref_all))
        acc = [l.conditional_acceptance(impl.mk_cond(*q)) for q in qs]
        if acc != ref_acc:
            viol('loaded-object-acceptance-differs', got=acc, expected=ref_acc, queries=qtext)
        if ref_imp is not None and list(getattr(l, '_impacts', [])) != ref_imp:
            viol('loaded-impacts-differ', got=getattr(l, '_impacts', None), expected=ref_imp)
        if json.dumps({k_: v for k_, v in l.metadata.items() if k_ in meta}, sort_keys=True) != json.dumps(meta, sort_keys=True):
            viol('loaded-metadata-differs')
    if partial:
        res['nontrivial'].append(h(desc, 'same-process', pre))

    # ------------------------------------------------------------ fresh interpreter
    if case.get('fresh'):
        qf = os.path.join(tmp, 'q.json')
        job = {'worlds': order[:max(1, len(order) // 2)], 'queries': qtext}
        env = dict(os.environ, INFOCF_LOGLEVEL='ERROR')
        meta_child = None
        if rng.random() < 0.5:
            # the child saves metadata while running under a non-UTF-8 locale; this process loads it
            meta_child = os.path.join(tmp, 'childmeta' + rng.choice(['.json', '.meta', '']))
            job['save_metadata_to'] = meta_child
            job['metadata'] = meta
            env.update(LC_ALL='C', LANG='C', PYTHONUTF8='0', PYTHONCOERCECLOCALE='0')
        json.dump(job, open(qf, 'w'))
        try:
            r = subprocess.run(['/venv/bin/python', os.path.join(os.path.dirname(os.path.dirname(__file__)), 'reload_helper.py'), p, qf],
                               capture_output=True, text=True, timeout=120, env=env)
            line = [x for x in r.stdout.splitlines() if x.startswith('RESULT ')]
            if r.returncode != 0 or not line:
                viol('fresh-process-load-failed', stderr=r.stderr[-400:])
            else:
                out = json.loads(line[-1][7:])
                res['evals'] += 1
                bump('fresh_process_reloads')
                if out['signature'] != list(sig):
                    viol('fresh-process:signature-differs', got=out['signature'])
                if {w: r_ for w, r_ in out['ranks_before'].items() if r_ is not None} != present:
                    viol('fresh-process:precomputed-ranks-differ', got=out['ranks_before'])
                if out['ranks'] != dict(ref_all) or any(out['lazy'][w] != ref_all[w] for w in out['lazy']):
                    viol('fresh-process:ranks-differ-after-continuation', got=out['ranks'], lazy=out['lazy'], expected=dict(ref_all))
                if out['acceptance'] != ref_acc:
                    viol('fresh-process:acceptance-differs', got=out['acceptance'], expected=ref_acc, queries=qtext)
                if ref_imp is not None and out['impacts'] != ref_imp:
                    viol('fresh-process:impacts-differ', got=out['impacts'], expected=ref_imp)
                if meta_child is not None:
                    res['evals'] += 1
                    bump('metadata_saved_under_non_utf8_locale')
                    if out.get('metadata_saved') is not True:
                        viol('metadata-save-failed-under-non-utf8-locale', error=str(out.get('metadata_saved')), metadata=meta)
                    else:
                        try:
                            t = PreOCF.init_custom({'0': 0, '1': 1}, None, ['a'])
                            t.load_metadata(meta_child)
                            got = {k_: v for k_, v in t.metadata.items() if k_ in meta}
                            if json.dumps(got, sort_keys=True) != json.dumps(meta, sort_keys=True):
                                viol('metadata-written-under-non-utf8-locale-reloads-differently', got=got, expected=meta)
                        except Exception as e:
                            viol('metadata-written-under-non-utf8-locale-unreadable:%s' % type(e).__name__, error=str(e)[:150])
                if partial:
                    res['nontrivial'].append(h(desc, 'fresh-process', pre))
        except subprocess.TimeoutExpired:
            res['inconclusive'].append('fresh interpreter watchdog')

    # ------------------------------------------------------------ metadata round trip
    for _ in range(2):
        suf = rng.choice(SUFFIXES)
        mp = os.path.join(tmp, 'meta%d%s' % (rng.randint(0, 99), suf))
        res['evals'] += 1
        bump('metadata_roundtrips')
        cls = 'json' if suf.lower() == '.json' else 'pickle' if suf.lower() in ('.pkl', '.pickle') else 'other'
        try:
            o.save_metadata(mp)
            t = mk() if kind == 'custom' else PreOCF.init_custom({'0': 0, '1': 1}, None, ['a'])
            if rng.random() < 0.6:
                # the receiving object already has metadata: loaded keys overwrite, other keys stay
                t.save_meta('kept-from-before', 42)
                t.save_meta(sorted(meta)[0], 'stale value')
            t.load_metadata(mp)
            got = {k_: v for k_, v in t.metadata.items() if k_ in meta}
            if 'kept-from-before' in t.metadata and t.metadata['kept-from-before'] != 42:
                viol('metadata-load-damaged-existing-key', suffix=suf)
            if json.dumps(got, sort_keys=True) != json.dumps(meta, sort_keys=True):
                viol('metadata-roundtrip-differs:suffix-%s%s' % (cls, ':upper-case' if suf != suf.lower() else ''), suffix=suf, got=got, expected=meta)
        except Exception as e:
            viol('metadata-roundtrip-raised:%s:suffix-%s%s' % (type(e).__name__, cls, ':upper-case' if suf != suf.lower() else ''),
                 suffix=suf, error=str(e)[:150])

    # ------------------------------------------------------------ impacts round trip
    if kind == 'c-rep':
        bb = impl.mk_bb(sig, conds)
        for _ in range(2):
            suf = rng.choice(SUFFIXES)
            fmt = rng.choice(['json', 'json', 'pickle']) if suf.lower() not in ('.json', '.pkl', '.pickle') else \
                ('json' if suf.lower() == '.json' else 'pickle')
            ip = os.path.join(tmp, 'imp%d%s' % (rng.randint(0, 99), suf))
            res['evals'] += 1
            bump('impact_roundtrips')
            cls = 'json' if suf.lower() == '.json' else 'pickle' if suf.lower() in ('.pkl', '.pickle') else 'other'
            try:
                if fmt == 'json' and rng.random() < 0.5:
                    o.export_impacts(ip)
                else:
                    o.export_impacts(ip, fmt=fmt)
                t = RandomMinCRepPreOCF.init_with_impacts(bb, ip)
                if list(t.save_impacts()) != ref_imp or t.compute_all_ranks() != ref_all:
                    viol('impacts-file-roundtrip-differs:suffix-%s' % cls, suffix=suf, fmt=fmt, got=t.save_impacts(), expected=ref_imp)
            except Exception as e:
                viol('impacts-file-roundtrip-raised:%s:suffix-%s:fmt-%s%s' % (type(e).__name__, cls, fmt, ':upper-case' if suf != suf.lower() else ''),
                     suffix=suf, error=str(e)[:150])
        try:
            # the same impacts over a LARGER explicit signature (one unused atom): ranks do not depend on it
            big = list(sig) + ['zz']
            ip2 = os.path.join(tmp, 'imp_big.json')
            o.export_impacts(ip2)
            for tb in (RandomMinCRepPreOCF.init_with_impacts(bb, ip2, signature=big),
                       RandomMinCRepPreOCF.init_with_impacts_list(bb, o.save_impacts(), signature=big)):
                res['evals'] += 1
                bump('impacts_over_extended_signature')
                if list(tb.signature) != big:
                    viol('impacts-extended-signature:signature-differs', got=list(tb.signature))
                    continue
                allr = tb.compute_all_ranks()
                exp_big = {w + b_: r for w, r in ref_all.items() for b_ in '01'}
                if dict(allr) != exp_big:
                    viol('impacts-extended-signature:ranks-differ', got=len(allr), expected=len(exp_big))
        except Exception as e:
            viol('impacts-extended-signature-raised:%s' % type(e).__name__, error=str(e)[:150])
        try:
            t = RandomMinCRepPreOCF.init_with_impacts_list(bb, o.save_impacts())
            t2 = RandomMinCRepPreOCF.init_with_impacts_list(bb, [0] * len(conds))
            t2.load_impacts(o.save_impacts())
            if t.compute_all_ranks() != ref_all or t2.compute_all_ranks() != ref_all:
                viol('impacts-list-roundtrip-differs')
        except Exception as e:
            viol('impacts-list-roundtrip-raised:%s' % type(e).__name__, error=str(e)[:150])

    # ------------------------------------------------------------ failing saves (fault enumeration)
    def after_failure(tag, raised, wrote):
        res['evals'] += 1
        bump('failed_saves_checked')
        if not raised:
            viol('failing-save-did-not-raise:%s' % tag)
            return
        if snapshot(o) != before2:
            a, b = snapshot(o), before2
            what = ('solver-handles' if a[:2] != b[:2] else 'ranks' if a[2] != b[2] else 'impacts' if a[3] != b[3] else 'metadata')
            viol('object-changed-by-failed-save:%s:%s' % (what, tag))
            return
        try:
            w = rng.choice(worlds)
            if o.rank_world(w) != ref_all[w]:
                viol('object-ranks-wrong-after-failed-save:%s' % tag, world=w)
            if o.conditional_acceptance(impl.mk_cond(*qs[0])) != ref_acc[0]:
                viol('object-acceptance-wrong-after-failed-save:%s' % tag)
        except Exception as e:
            viol('object-unusable-after-failed-save:%s:%s' % (type(e).__name__, tag), error=str(e)[:150])
        if wrote:
            res['nontrivial'].append(h(desc, tag))

    scen = rng.sample(['directory', 'parent-missing', 'unpicklable-lambda', 'unpicklable-file', 'write-fault',
                       'write-fault', 'metadata-directory', 'impacts-directory'], 4)
    for sc in scen:
        before2 = snapshot(o)
        if sc == 'directory':
            try:
                o.save_ocf(tmp)
                after_failure(sc, False, False)
            except Exception:
                after_failure(sc, True, False)
        elif sc == 'parent-missing':
            try:
                o.save_ocf(os.path.join(tmp, 'no', 'such', 'dir', 'x.pkl'))
                after_failure(sc, False, False)
            except Exception:
                after_failure(sc, True, False)
        elif sc in ('unpicklable-lambda', 'unpicklable-file'):
            handle = None
            if sc == 'unpicklable-lambda':
                bad = (lambda x: x)
            else:
                handle = open(os.devnull, 'rb')
                bad = handle
            o.metadata['__bad__'] = bad
            before2 = snapshot(o)
            try:
                o.save_ocf(os.path.join(tmp, 'bad.pkl'))
                raised = False
            except Exception:
                raised = True
            after_failure(sc, raised, True)
            del o.metadata['__bad__']
            if handle:
                handle.close()
        elif sc == 'write-fault':
            target = os.path.join(tmp, 'wf.pkl')
            log = {'writes': 0}
            orig_open = pathlib.Path.open

            def patched(self_p, *a, **kw):
                f = orig_open(self_p, *a, **kw)
                if str(self_p) == target and a and 'w' in a[0]:
                    return FaultyFile(f, fail_at[0], log)
                return f
            fail_at = [None]
            pathlib.Path.open = patched
            try:
                o.save_ocf(target)
                nwrites = log['writes']
                bump('write_points_calibrated', nwrites)
                for kf in range(1, nwrites + 1):
                    log['writes'] = 0
                    fail_at[0] = kf
                    before2 = snapshot(o)
                    bump('write_fault_runs')
                    try:
                        o.save_ocf(target)
                        raised = False
                    except OSError:
                        raised = True
                    except Exception:
                        raised = True
                    after_failure('write-fault', raised, kf > 1)
            finally:
                pathlib.Path.open = orig_open
        elif sc == 'metadata-directory':
            try:
                o.save_metadata(tmp)
                after_failure(sc, False, False)
            except Exception:
                after_failure(sc, True, False)
        elif sc == 'impacts-directory' and kind == 'c-rep':
            try:
                o.export_impacts(tmp)
                after_failure(sc, False, False)
            except Exception:
                after_failure(sc, True, False)
    # a subsequent successful save still round-trips
    try:
        p2 = os.path.join(tmp, 'again.pkl')
        o.save_ocf(p2)
        l2 = PreOCF.load_ocf(p2, trusted=True)
        if l2.compute_all_ranks() != ref_all:
            viol('save-after-failed-save-does-not-roundtrip')
    except Exception as e:
        viol('save-after-failed-save-raised:%s' % type(e).__name__, error=str(e)[:150])
    res['sample'] = dict(desc, scenarios=scen, metadata=meta)
    return res

"""C07: extended semantics: exact and total on weakly consistent bases (DESIGN.md section 7, C07)."""
from . import opcommon

ID = 'C07'
LEVEL = 'exploration'
CONFIGS = [('p-entailment', ''), ('system-z', ''), ('system-w', 'rc2'), ('system-w', 'z3'), ('lex_inf', 'rc2'), ('lex_inf', 'z3')]
WEAKLY = True
WANT = 'weak_or_strong'
RULE = ('weakly consistent bases (no finite layer; finite layers + non-empty infinity layer; strongly consistent ones for strict/extended agreement) x 8 queries x all operators/back-ends with weakly=True; judged by M2+M3 restricted to feasible worlds and finite layers; any exception is a violation; every 20th case is a LARGE strongly consistent base (corpus / unions, 10-60 atoms) on which the extended answers of the real code must equal its strict answers. Non-trivial = some feasible world satisfies A&B and some A&!B; distinct by hash(base, query, configuration). Additionally a bounded number of LARGE bases (8-100 atoms: shipped corpora, disjoint unions of generated bases) x 6 base-derived queries are judged by the same definition evaluated with satisfiability questions instead of world enumeration (vf/bigref.py: certified models, own z3 context, no MaxSAT/Tseitin/pysmt); System W by counterexample-guided search.')
ASSUMPTIONS = ['worlds are enumerated: bases of <= 6 atoms (incl. query atoms outside the signature) and <= 8 conditionals, plus a ~5% share of "wide" bases with 7-8 atoms, 9-13 conditionals or 5-7 layers; formula depth <= 3 (deep equivalent wrappers to depth 9)', 'reference semantics vf/refmodel.py is the definition quoted in the property (self-tested on textbook instances at start-up)']
TRUSTED = ["z3 'unsat' answers inside the large-base reference vf/bigref.py (its 'sat' answers are re-checked by the pure-Python evaluator)"]
FLOOR = {'quick': 300, 'thorough': 3000}
BUDGET = {'quick': 100, 'thorough': 1500}
N = {'quick': 900, 'thorough': 10000}
FAMILIES = [('weak', 70)]
selftest = opcommon.selftest_birds
HARD_TIMEOUT = 400
SOFT_TIMEOUT = 300


def cases(tier, seed):
    out = []
    n = N[tier]
    for i in range(n):
        fam = None
        for name, share in FAMILIES:
            if i % 100 < share:
                fam = name
                break
        out.append({'prop': ID, 'seed': seed, 'idx': i, 'family': fam, 'large': i % 20 == 7, 'tier': tier})
    out.sort(key=lambda c: not c['large'])
    from ..witness import WITNESSES
    return ([{'prop': ID, 'seed': seed, 'idx': 10 ** 6 + i, 'witness': i} for i in range(len(WITNESSES))]
            + opcommon.big_cases(ID, tier, seed) + out)


def run_large(case):
    """strongly consistent bases of any size: the extended answers must coincide with the strict ones
    (differential, the real code against itself; no world enumeration)"""
    from .. import gen, corpus, impl, fml
    from .opcommon import h
    rng = gen.rng_for(case['seed'], ID, case['idx'])
    res = {'evals': 0, 'nontrivial': [], 'violations': [], 'inconclusive': [], 'counters': {}}
    if rng.random() < 0.5:
        files = corpus.random_large(20 if case.get('tier') == 'quick' else 60)
        a, c, i, path = files[rng.randrange(len(files))]
        src = path.split('/examples/')[-1]
        _, sig, conds = corpus.load(path)
    else:
        sig, conds = corpus.union_base(rng, parts=rng.randint(3, 6), want='strong')
        src = 'union'
    qs = corpus.derived_queries(rng, sig, conds, 5, layers=corpus.real_partition(impl.mk_bb(sig, conds)))
    bdesc = {'source': src, 'atoms': len(sig), 'conditionals': len(conds)}
    for (system, p) in CONFIGS:
        cname = impl.cfg_name(system, p)
        try:
            strict = impl.results(impl.ask(impl.mk_bb(sig, conds), system, p, impl.mk_queries(qs), weakly=False))
        except AssertionError:
            res['counters']['large_base_not_strongly_consistent'] = 1
            return res
        except Exception as e:
            res['inconclusive'].append('strict run raised %s' % type(e).__name__)
            continue
        try:
            ext = impl.results(impl.ask(impl.mk_bb(sig, conds), system, p, impl.mk_queries(qs), weakly=True))
        except Exception as e:
            if type(e).__name__ == 'SoftTimeout':
                raise
            res['violations'].append({'sig': '%s:extended:exception:%s:large-strongly-consistent-base' % (cname, type(e).__name__),
                                      'detail': {'base': bdesc, 'error': str(e)[:200]}})
            continue
        for qi, q in enumerate(qs):
            res['evals'] += 1
            res['counters']['large_strict_vs_extended_rows'] = res['counters'].get('large_strict_vs_extended_rows', 0) + 1
            if strict[qi]:
                res['nontrivial'].append(h(bdesc, fml.cond_text(*q), cname))
            if strict[qi] != ext[qi]:
                res['violations'].append({
                    'sig': '%s:extended-differs-from-strict-on-strongly-consistent-base(ext=%s,strict=%s)' % (cname, ext[qi], strict[qi]),
                    'detail': {'base': bdesc, 'query': fml.cond_text(*q)}})
    res['sample'] = {'base': bdesc, 'kind': 'large strict-vs-extended differential', 'queries': [fml.cond_text(*q) for q in qs[:3]]}
    return res


def run_case(case):
    if case.get('big'):
        return opcommon.run_big_case(case, ID, CONFIGS, WEAKLY)
    if case.get('large'):
        return run_large(case)
    return opcommon.run_operator_case(case, ID, CONFIGS, WEAKLY, WANT, nq=8)

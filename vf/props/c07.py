"""C07: extended semantics: exact and total on weakly consistent bases (DESIGN.md section 7, C07)."""
from . import opcommon

ID = 'C07'
LEVEL = 'exploration'
CONFIGS = [('p-entailment', ''), ('system-z', ''), ('system-w', 'rc2'), ('system-w', 'z3'), ('lex_inf', 'rc2'), ('lex_inf', 'z3')]
WEAKLY = True
WANT = 'weak_or_strong'
RULE = ('weakly consistent bases (no finite layer; finite layers + non-empty infinity layer; strongly consistent ones for strict/extended agreement) x 8 queries x all operators/back-ends with weakly=True; judged by M2+M3 restricted to feasible worlds and finite layers; any exception is a violation. Non-trivial = some feasible world satisfies A&B and some A&!B; distinct by hash(base, query, configuration).')
ASSUMPTIONS = ['worlds are enumerated: bases of <= 6 atoms (incl. query atoms outside the signature), <= 8 conditionals, formula depth <= 3', 'reference semantics vf/refmodel.py is the definition quoted in the property (self-tested on textbook instances at start-up)']
TRUSTED = []
FLOOR = {'quick': 300, 'thorough': 3000}
BUDGET = {'quick': 100, 'thorough': 1500}
N = {'quick': 900, 'thorough': 10000}
FAMILIES = [('weak', 70)]
selftest = opcommon.selftest_birds


def cases(tier, seed):
    out = []
    n = N[tier]
    for i in range(n):
        fam = None
        for name, share in FAMILIES:
            if i % 100 < share:
                fam = name
                break
        out.append({'prop': ID, 'seed': seed, 'idx': i, 'family': fam})
    return out


def run_case(case):
    return opcommon.run_operator_case(case, ID, CONFIGS, WEAKLY, WANT, nq=8)

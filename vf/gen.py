"""Workload generators (G1-G3).  Pure data: bases are (sig, [(B, A), ...]) with ASTs of vf.fml.
Uses the reference model only to *classify* what it generates (consistent / weakly / shape),
never to decide a verdict."""
import random
from . import fml
from .fml import V, Not, And, Or, TOP, BOT
from . import refmodel as rm

NAMES = ['a', 'b', 'c', 'd', 'e', 'f']


def rng_for(*parts):
    return random.Random('/'.join(str(p) for p in parts))


def rand_base(rng, nat=None, ncond=None, depth=None, p_const=0.05, knobs=None):
    knobs = knobs or {}
    nat = nat or rng.choice([2, 3, 3, 4, 4, 5])
    ncond = ncond or rng.randint(1, 6)
    depth = rng.choice([0, 1, 1, 2, 2, 3]) if depth is None else depth
    sig = NAMES[:nat]
    conds = []
    for _ in range(ncond):
        r = rng.random()
        if conds and r < knobs.get('dup', 0.05):
            B, A = rng.choice(conds)
            if rng.random() < 0.5:      # syntactically different, equivalent
                B = fml.equivalent_rewrite(rng, B, sig)
            conds.append((B, A))
            continue
        if r < knobs.get('dup', 0.05) + knobs.get('fact', 0.05):
            conds.append((fml.rand_formula(rng, sig, min(depth, 1), 0.0), TOP))
            continue
        if r < knobs.get('dup', 0.05) + knobs.get('fact', 0.05) + knobs.get('unfals', 0.05):
            A = fml.rand_formula(rng, sig, depth, p_const)
            conds.append((Or(A, fml.rand_formula(rng, sig, 1, 0.0)) if rng.random() < 0.5 else A, A))
            continue
        if rng.random() < knobs.get('conjcons', 0.1):
            # consequent = conjunction of 2-4 literals: non-falsification CNF with several clauses
            lits = []
            for a in rng.sample(sig, min(len(sig), rng.randint(2, 4))):
                lits.append(V(a) if rng.random() < 0.7 else Not(V(a)))
            B = lits[0]
            for l in lits[1:]:
                B = And(B, l)
            A = fml.rand_formula(rng, sig, min(depth, 1), 0.0)
            conds.append((B, A))
            continue
        B = fml.rand_formula(rng, sig, depth, p_const)
        A = fml.rand_formula(rng, sig, depth, p_const)
        conds.append((B, A))
    return sig, conds


def conj_consequent_base(rng):
    """rules with a common antecedent, one or two of them with a conjunction of 2-4 literals as
    consequent (several soft clauses for one conditional: MaxSAT cost != number of falsified
    conditionals), optionally an exception layer on top"""
    sig = list(NAMES)
    g = sig[0]
    rest = sig[1:]
    rng.shuffle(rest)
    k = rng.randint(2, 3)
    conj_atoms, plain = rest[:k], rest[k:k + 2]
    B = V(conj_atoms[0])
    for a in conj_atoms[1:]:
        B = And(B, V(a))
    conds = [(B, V(g))] + [(V(p), V(g)) for p in plain]
    if rng.random() < 0.5:
        # the rules above become an UPPER layer: by default g does not hold, and some of the atoms the rules
        # talk about are false by default, so a tie among the rules is continued differently below
        conds.append((Not(V(g)), TOP))
        for a_ in rng.sample(conj_atoms + plain, rng.randint(1, 3)):
            conds.append((Not(V(a_)), TOP))
        rng.shuffle(conds)
        return [a for a in sig if a in [g] + conj_atoms + plain], conds
    if rng.random() < 0.4:
        conds.append((Or(V(conj_atoms[0]), V(plain[0])), TOP))
    used = [g] + conj_atoms + plain
    if rng.random() < 0.4 and len(used) < 6:
        h_ = [a for a in sig if a not in used][0]
        used.append(h_)
        conds.append((V(g), V(h_)))
        conds.append((Not(V(plain[0])), V(h_)))
    rng.shuffle(conds)
    return [a for a in sig if a in used], conds


def strong_falsifier(B, A):
    """A and every conjunct of B false (for a conjunctive consequent), else A and not B"""
    lits = []

    def flat(f):
        if f[0] == 'and':
            flat(f[1])
            flat(f[2])
        else:
            lits.append(f)
    flat(B)
    t = A
    for l in lits:
        t = And(t, Not(l))
    return t


def wide_base(rng):
    """beyond the usual bounds: 7-8 atoms, 9-12 conditionals or 5-7 layers (worlds are still enumerable)"""
    if rng.random() < 0.4:
        sig, conds = penguin_chain(rng, rng.randint(6, 7), max_atoms=8)
        if rng.random() < 0.5:
            conds.append((V('w'), V(sig[0])))
            sig = sig + ['w'] if len(sig) < 8 else sig
            if 'w' not in sig:
                conds.pop()
        return sig, conds
    for _ in range(50):
        s1, c1 = rand_base(rng, nat=4, ncond=rng.randint(4, 6), depth=rng.choice([0, 1, 2]), p_const=0.02)
        s2, c2 = rand_base(rng, nat=rng.choice([3, 4]), ncond=rng.randint(4, 6), depth=rng.choice([0, 1, 2]), p_const=0.02)
        if classify(s1, c1)[0] != 'strong' or classify(s2, c2)[0] != 'strong':
            continue
        m2 = dict(zip(NAMES, ['s', 't', 'u', 'v']))
        sig = list(s1) + [m2[a] for a in s2]
        conds = list(c1) + [(fml.rename(B, m2), fml.rename(A, m2)) for (B, A) in c2]
        for _ in range(rng.randint(0, 2)):        # bridge rules between the halves, kept if still consistent
            extra = (fml.rand_formula(rng, sig[len(s1):], 0, 0.0), fml.rand_formula(rng, sig[:len(s1)], 0, 0.0))
            if classify(sig, conds + [extra])[0] == 'strong':
                conds.append(extra)
        rng.shuffle(conds)
        return sig, conds
    return penguin_chain(rng, 6, max_atoms=8)


def exp_impact_chain(rng):
    """verifying rule 3 falsifies rules 1 and 2, verifying rule 2 falsifies rule 1, falsifying is free: every
    c-representation needs impacts >= (1, 2, 4) — larger than the number of conditionals"""
    names = rng.sample(NAMES, 4)
    a, b, c, d = (V(x) for x in names)
    conds = [(a, TOP), (And(b, Not(a)), c), (And(And(Not(a), c), Not(b)), d)]
    sig = list(names)
    if rng.random() < 0.4:
        extra = [x for x in NAMES if x not in names][0]
        sig.append(extra)
        conds.append((V(extra), rng.choice([a, d, TOP])))
    rng.shuffle(conds)
    return sig, conds


def disjunctive_antecedent_base(rng):
    """facts (x_i|Top) in layer 0 plus rules of a later layer whose antecedent is a DISJUNCTION of two cases:
    one case falsifies some of the facts, the other case triggers (and may falsify) another later-layer rule.
    The cheapest verifying world of such a rule depends on the impacts, across layers."""
    m = rng.randint(2, 3)
    xs = NAMES[:m]
    z, v = 'z', 'v'
    sig = xs + [v, z]
    if len(sig) < 6 and rng.random() < 0.7:
        sig.append('u')
    conds = [((V(x) if rng.random() < 0.85 else Not(V(x))), TOP) for x in xs]
    lits = [c[0] for c in conds]
    S = rng.sample(range(m), rng.randint(1, m))
    case1 = Not(V(v))
    for i in S:
        case1 = And(case1, Not(lits[i]))              # falsifies the facts in S, v false
    case2 = V(v)
    for i in range(m):
        if rng.random() < 0.7:
            case2 = And(case2, lits[i])                 # facts hold, v true
    conds.append((V(z), Or(case1, case2)))
    if 'u' in sig:
        conds.append((And(V('u'), Not(lits[rng.randrange(m)])), V(v)))   # verifying it falsifies a fact
    else:
        conds.append((Not(lits[rng.randrange(m)]), V(v)))
    if rng.random() < 0.3:
        conds.append((fml.rand_formula(rng, sig, 1, 0.0), fml.rand_formula(rng, sig, 1, 0.0)))
    rng.shuffle(conds)
    return sig, conds


def multi_exception_base(rng):
    """class b with properties q_j; m exception classes e_j (penguin, kiwi, ...) each negating 'its'
    property: two layers, the upper one with several independent rules, so queries can force a TIE of
    several incomparable / equal-cardinality falsification sets in the upper layer"""
    m = rng.randint(2, 3)
    props = ['q%d' % j for j in range(m)]
    exc = ['e%d' % j for j in range(m)]
    sig = ['b'] + props + exc
    if len(sig) > 6:
        sig = sig[:6]
        m = 2
        props, exc = ['q0', 'q1'], ['e0', 'e1']
        sig = ['b'] + props + exc
    conds = [(V(p), V('b')) for p in props]
    for j in range(m):
        conds.append((V('b'), V(exc[j])))
        conds.append((Not(V(props[j])), V(exc[j])))
    if rng.random() < 0.4 and len(sig) < 6:
        sig.append('x')
        conds.append((V('x'), V('b')))
    if rng.random() < 0.3:
        conds.append((And(V(props[0]), V(props[1])), And(V('b'), Not(V(exc[0])))))
    rng.shuffle(conds)
    return sig, conds


def penguin_chain(rng, levels, max_atoms=6):
    """exception hierarchy with `levels` layers: c0 > c1 > ... each level flips property p"""
    sig = ['c%d' % i for i in range(levels)] + ['p']
    sig = sig[:max_atoms] if len(sig) > max_atoms else sig
    L = len(sig) - 1
    conds = []
    for i in range(L):
        lit = V('p') if i % 2 == 0 else Not(V('p'))
        conds.append((lit, V(sig[i])))
        if i > 0:
            conds.append((V(sig[i - 1]), V(sig[i])))
    rng.shuffle(conds)
    return sig, conds


def indep_layer_base(rng):
    """one or two layers with several mutually independent conditionals (several incomparable
    minimal falsification sets per layer), optionally an exception on top"""
    k = rng.randint(2, 4)
    props = NAMES[:k]
    sig = props + ['g'] if rng.random() < 0.6 else list(props)
    conds = []
    if 'g' in sig:
        for p in props:
            conds.append((V(p) if rng.random() < 0.8 else Not(V(p)), V('g')))
        if rng.random() < 0.5 and len(sig) < 6:
            sig = sig + ['h']
            conds.append((V('g'), V('h')))
            conds.append((Not(V(props[0])) if conds[0][0][0] == 'var' else V(props[0]), V('h')))
    else:
        for p in props:
            conds.append((V(p), TOP if rng.random() < 0.3 else Or(V(p), V(rng.choice(props)))))
    rng.shuffle(conds)
    return sig, conds


D4_BASE = (['b', 'p', 'f', 'w', 'u'],
           [(V('f'), V('b')), (V('w'), V('b')), (V('b'), V('p')), (Not(V('f')), V('p')),
            (V('u'), Not(V('b')))])
D4_QUERY = (Not(And(V('b'), Not(V('w')))),
            And(V('p'), Or(And(Not(V('b')), Not(V('u'))), And(V('b'), V('f')))))

BIRDS = (['b', 'p', 'f', 'w'],
         [(V('f'), V('b')), (Not(V('f')), V('p')), (V('b'), V('p')), (V('w'), V('b'))])


def d4_family(rng):
    """variants of the hand-derived lex shape: rename atoms, add an independent rule"""
    sig, conds = D4_BASE
    conds = list(conds)
    if rng.random() < 0.5:
        conds.append((V('w'), V('u')))
    if rng.random() < 0.3:
        conds.append((V('u'), V('p')))
    rng.shuffle(conds)
    return list(sig), conds


def weak_shape(rng):
    """weakly-consistent shapes: (a) no finite layer, (b) finite + non-empty infinity layer"""
    k = rng.random()
    nat = rng.choice([2, 3, 3, 4])
    sig = NAMES[:nat]
    inf = []
    for _ in range(rng.randint(1, 2)):
        x = fml.rand_formula(rng, sig, rng.choice([0, 1, 1, 2]), 0.0)
        r = rng.random()
        if r < 0.4:
            inf.append((Not(x), x))             # (¬x|x): x infeasible
        elif r < 0.7:
            inf.append((BOT, x))
        else:
            y = fml.rand_formula(rng, sig, 1, 0.0)
            inf.append((y, And(x, Not(y))))     # antecedent contradicts consequent
    if k < 0.3:
        conds = inf
    elif k < 0.6:
        # a structured strongly consistent base (ties, conjunctive consequents, chains) plus an infinity layer
        # over a fresh atom u: worlds with u are infeasible, queries may mention u
        fam = rng.choice(['multiex', 'conjcons', 'indep', 'chain', 'd4', 'disjant'])
        for _ in range(30):
            if fam == 'multiex':
                sig, fin = multi_exception_base(rng)
            elif fam == 'conjcons':
                sig, fin = conj_consequent_base(rng)
            elif fam == 'indep':
                sig, fin = indep_layer_base(rng)
            elif fam == 'chain':
                sig, fin = penguin_chain(rng, rng.randint(2, 4))
            elif fam == 'd4':
                sig, fin = d4_family(rng)
            else:
                sig, fin = disjunctive_antecedent_base(rng)
            if len(sig) <= 5 or (len(sig) <= 7 and rng.random() < 0.5):
                break
        un = 'u' if 'u' not in sig else 'uu'
        sig = list(sig) + [un]
        u = V(un)
        inf = [rng.choice([(BOT, u), (Not(u), u), (BOT, And(u, fml.rand_formula(rng, sig[:-1], 0, 0.0)))])]
        if rng.random() < 0.3:
            inf.append((u, And(u, fml.rand_formula(rng, sig[:-1], 0, 0.0))))
        conds = list(fin) + inf
        rng.shuffle(conds)
        return sig, conds
    else:
        _, fin = rand_base(rng, nat, rng.randint(1, 4), rng.choice([0, 1, 2]), 0.02)
        conds = fin + inf
        rng.shuffle(conds)
    return sig, conds


def classify(sig, conds):
    """('strong'|'weak'|'inconsistent', Setup or None)"""
    b = rm.Base(sig, conds)
    if not conds:
        return 'empty', None, b
    s = rm.Setup(b, False)
    if s.ok:
        return 'strong', s, b
    s = rm.Setup(b, True)
    if s.ok:
        return 'weak', s, b
    return 'inconsistent', None, b


def gen_base(rng, want='strong', family=None, max_tries=400, **kw):
    """generate until the class matches.  want: 'strong' | 'weak' (weak and not strong) |
    'weak_or_strong' | 'any'."""
    for _ in range(max_tries):
        fam = family or rng.choices(
            ['rand', 'chain', 'indep', 'd4', 'multiex', 'conjcons', 'disjant', 'expchain', 'wide', 'weak'],
            [6, 1, 2, 0.5, 1.5, 1, 0.6, 0.3, 0.7 if want in ('strong', 'weak_or_strong', 'any') else 0,
             3 if want in ('weak', 'weak_or_strong') else 0])[0]
        if fam == 'rand':
            sig, conds = rand_base(rng, **kw)
        elif fam == 'chain':
            sig, conds = penguin_chain(rng, rng.randint(2, 5))
        elif fam == 'indep':
            sig, conds = indep_layer_base(rng)
        elif fam == 'd4':
            sig, conds = d4_family(rng)
        elif fam == 'multiex':
            sig, conds = multi_exception_base(rng)
        elif fam == 'conjcons':
            sig, conds = conj_consequent_base(rng)
        elif fam == 'wide':
            sig, conds = wide_base(rng)
        elif fam == 'expchain':
            sig, conds = exp_impact_chain(rng)
        elif fam == 'disjant':
            sig, conds = disjunctive_antecedent_base(rng)
        else:
            sig, conds = weak_shape(rng)
        if conds and len(conds) < 12 and rng.random() < 0.12:
            # the same conditional stated twice, spelled identically (never changes the consistency class)
            conds = list(conds)
            conds.insert(rng.randrange(len(conds) + 1), rng.choice(conds))
        if want == 'any':
            return sig, conds, fam
        cls, _, _ = classify(sig, conds)
        if cls == want or (want == 'weak_or_strong' and cls in ('weak', 'strong')):
            return sig, conds, fam
    raise RuntimeError('generator starved for %s/%s' % (want, family))


def tie_query(rng, sig, conds):
    """a query whose antecedent is a disjunction of 'falsifiers' of 2-3 conditionals of one layer
    (preferably an upper one): both the verifying and the falsifying worlds must falsify one of them, which
    produces several incomparable / minimum-cardinality falsification sets with different continuations"""
    cls, setup, base = classify(sig, conds)
    if setup is None or not setup.part:
        return None
    layers = [l for l in setup.part if len(l) >= 2]
    if not layers:
        return None
    layer = layers[-1] if rng.random() < 0.7 else rng.choice(layers)
    js = rng.sample(layer, min(len(layer), rng.randint(2, 3)))
    conj = [j for j in layer if conds[j][0][0] == 'and']
    plain = [j for j in layer if j not in conj]
    if conj and len(plain) >= 2 and rng.random() < 0.5:
        # one world class falsifies ONE conjunctive rule with every conjunct false, another falsifies
        # TWO plain rules: fewer conditionals but more soft clauses on the first side
        j0 = rng.choice(conj)
        p1, p2 = rng.sample(plain, 2)
        A = Or(strong_falsifier(*conds[j0]),
               And(And(conds[p1][1], Not(conds[p1][0])), And(conds[p2][1], Not(conds[p2][0]))))
        if rng.random() < 0.5:
            # a third class: exactly one plain rule falsified (cost 1), so that the candidates come in the
            # cost order {p}:1 < {p1,p2}:2 < {j0}:k while the cardinalities are 1, 2, 1
            p3 = rng.choice(plain)
            A = Or(A, And(conds[p3][1], Not(conds[p3][0])))
        both = And(And(conds[p1][1], Not(conds[p1][0])), And(conds[p2][1], Not(conds[p2][0])))
        y = fml.rand_formula(rng, sig, 0, 0.0)
        Bq = rng.choice([conds[p1][0], conds[j0][0], Or(conds[p1][0], conds[j0][0][1]),
                         fml.rand_formula(rng, sig, 1, 0.0),
                         Or(both, y),            # one side sees both classes of worlds, the other only one
                         Not(Or(both, y)), Or(strong_falsifier(*conds[j0]), y), And(Not(both), y)])
        return (Bq, A)
    A = None
    for j in js:
        Bj, Aj = conds[j]
        t = And(Aj, Not(Bj)) if rng.random() < 0.7 else strong_falsifier(Bj, Aj)
        if rng.random() < 0.3:
            t = And(t, fml.rand_formula(rng, sig, 0, 0.0))
        A = t if A is None else Or(A, t)
    r = rng.random()
    if r < 0.4:
        B = fml.rand_formula(rng, sig, 0, 0.0)
    elif r < 0.7:
        Bq, _ = rng.choice(conds)
        B = Bq if rng.random() < 0.5 else Not(Bq)
    else:
        B = fml.rand_formula(rng, sig, 2, 0.0)
    return (B, A)


def deepen(rng, f, sig, levels=None):
    """an equivalent formula nested `levels` deep (so that printed forms are long / abbreviated)"""
    levels = levels or rng.randint(6, 9)
    for _ in range(levels):
        y = V(rng.choice(sig))
        f = And(f, Or(y, Not(y))) if rng.random() < 0.5 else Or(f, And(y, Not(y)))
    return f


def deep_twins(rng, sig, conds):
    """two DIFFERENT queries that are identical down to nesting depth >= 6 (same wrapper, different core):
    anything keyed by an abbreviated printed form confuses them"""
    levels = [(rng.random() < 0.5, rng.choice(sig)) for _ in range(rng.randint(6, 9))]

    def wrap(f):
        for conj, a in levels:
            y = V(a)
            f = And(f, Or(y, Not(y))) if conj else Or(f, And(y, Not(y)))
        return f
    if len(conds) >= 2 and rng.random() < 0.7:
        (B1, A1), (B2, A2) = rng.sample(conds, 2)
        B = B1 if rng.random() < 0.5 else fml.rand_formula(rng, sig, 0, 0.0)
        x, y = A1, A2
    else:
        B = fml.rand_formula(rng, sig, 0, 0.0)
        x, y = fml.rand_formula(rng, sig, 1, 0.0), fml.rand_formula(rng, sig, 1, 0.0)
    if rng.random() < 0.5:
        return (B, wrap(x)), (B, wrap(y))
    return (wrap(x), B), (wrap(y), B)


def gen_queries(rng, sig, conds, k, extra_atom_p=0.05, depth=2, p_tie=0.2, p_deep=0.04):
    """k queries (B, A): random formulas, base-derived ones, tie-forcing ones, hostile ones."""
    qs = []
    pool = list(sig)
    for _ in range(k):
        r = rng.random()
        s = pool + (['z'] if rng.random() < extra_atom_p else [])
        if conds and rng.random() < p_tie:
            q = tie_query(rng, sig, conds)
            if q is not None:
                qs.append(q)
                continue
        if conds and rng.random() < p_deep:
            B, A = rng.choice(conds)
            qs.append((B, deepen(rng, A, pool)))
            continue
        if r < 0.15 and conds:                      # own conditional
            qs.append(rng.choice(conds))
        elif r < 0.30 and conds:                    # strengthened antecedent
            B, A = rng.choice(conds)
            qs.append((B, And(A, fml.rand_formula(rng, s, 1, 0.0))))
        elif r < 0.40 and conds:                    # consequent of one under antecedent of another
            B, _ = rng.choice(conds)
            _, A = rng.choice(conds)
            qs.append((B if rng.random() < 0.7 else Not(B), A))
        elif r < 0.46:                              # trivial/hostile
            x = fml.rand_formula(rng, s, 1, 0.0)
            u = And(x, Not(x))                      # an unsatisfiable formula that is not the constant
            qs.append(rng.choice([(x, u), (BOT, x), (x, x), (TOP, x), (x, TOP),
                                  (u, fml.rand_formula(rng, s, 1, 0.0)),
                                  (x, BOT), (Not(u), u), (u, u), (Not(x), x), (Not(BOT), BOT), (BOT, BOT),
                                  (Or(x, Not(x)), Not(Or(x, Not(x))))]))
        else:
            qs.append((fml.rand_formula(rng, s, rng.randint(0, depth), 0.04),
                       fml.rand_formula(rng, s, rng.randint(0, depth), 0.04)))
    if conds and k >= 3 and p_deep and rng.random() < 0.08:
        # a pair of deep twins in ONE batch (different queries, identical down to nesting depth >= 6)
        t1, t2 = deep_twins(rng, pool, conds)
        qs[-2], qs[-1] = t1, t2
    return qs

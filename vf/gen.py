"""Workload generators (G1-G3).  Pure data: bases are (sig, [(B, A), ...]) with ASTs of vf.fml.
Uses the reference model only to *classify* what it generates (consistent / weakly / shape),
never to decide a verdict."""
import random
from . import fml
from .fml import V, Not, And, Or, TOP, BOT
from . import refmodel as rm

NAMES = ['a', 'b', 'c', 'd', 'e', 'f']


def rng_for(*parts):
    return random.Random('/'.join(str(p) for p in parts))


def rand_base(rng, nat=None, ncond=None, depth=None, p_const=0.05, knobs=None):
    knobs = knobs or {}
    nat = nat or rng.choice([2, 3, 3, 4, 4, 5])
    ncond = ncond or rng.randint(1, 6)
    depth = rng.choice([0, 1, 1, 2, 2, 3]) if depth is None else depth
    sig = NAMES[:nat]
    conds = []
    for _ in range(ncond):
        r = rng.random()
        if conds and r < knobs.get('dup', 0.05):
            B, A = rng.choice(conds)
            if rng.random() < 0.5:      # syntactically different, equivalent
                B = fml.equivalent_rewrite(rng, B, sig)
            conds.append((B, A))
            continue
        if r < knobs.get('dup', 0.05) + knobs.get('fact', 0.05):
            conds.append((fml.rand_formula(rng, sig, min(depth, 1), 0.0), TOP))
            continue
        if r < knobs.get('dup', 0.05) + knobs.get('fact', 0.05) + knobs.get('unfals', 0.05):
            A = fml.rand_formula(rng, sig, depth, p_const)
            conds.append((Or(A, fml.rand_formula(rng, sig, 1, 0.0)) if rng.random() < 0.5 else A, A))
            continue
        B = fml.rand_formula(rng, sig, depth, p_const)
        A = fml.rand_formula(rng, sig, depth, p_const)
        conds.append((B, A))
    return sig, conds


def penguin_chain(rng, levels):
    """exception hierarchy with `levels` layers: c0 > c1 > ... each level flips property p"""
    sig = ['c%d' % i for i in range(levels)] + ['p']
    sig = sig[:6] if len(sig) > 6 else sig
    L = len(sig) - 1
    conds = []
    for i in range(L):
        lit = V('p') if i % 2 == 0 else Not(V('p'))
        conds.append((lit, V(sig[i])))
        if i > 0:
            conds.append((V(sig[i - 1]), V(sig[i])))
    rng.shuffle(conds)
    return sig, conds


def indep_layer_base(rng):
    """one or two layers with several mutually independent conditionals (several incomparable
    minimal falsification sets per layer), optionally an exception on top"""
    k = rng.randint(2, 4)
    props = NAMES[:k]
    sig = props + ['g'] if rng.random() < 0.6 else list(props)
    conds = []
    if 'g' in sig:
        for p in props:
            conds.append((V(p) if rng.random() < 0.8 else Not(V(p)), V('g')))
        if rng.random() < 0.5 and len(sig) < 6:
            sig = sig + ['h']
            conds.append((V('g'), V('h')))
            conds.append((Not(V(props[0])) if conds[0][0][0] == 'var' else V(props[0]), V('h')))
    else:
        for p in props:
            conds.append((V(p), TOP if rng.random() < 0.3 else Or(V(p), V(rng.choice(props)))))
    rng.shuffle(conds)
    return sig, conds


D4_BASE = (['b', 'p', 'f', 'w', 'u'],
           [(V('f'), V('b')), (V('w'), V('b')), (V('b'), V('p')), (Not(V('f')), V('p')),
            (V('u'), Not(V('b')))])
D4_QUERY = (Not(And(V('b'), Not(V('w')))),
            And(V('p'), Or(And(Not(V('b')), Not(V('u'))), And(V('b'), V('f')))))

BIRDS = (['b', 'p', 'f', 'w'],
         [(V('f'), V('b')), (Not(V('f')), V('p')), (V('b'), V('p')), (V('w'), V('b'))])


def d4_family(rng):
    """variants of the hand-derived lex shape: rename atoms, add an independent rule"""
    sig, conds = D4_BASE
    conds = list(conds)
    if rng.random() < 0.5:
        conds.append((V('w'), V('u')))
    if rng.random() < 0.3:
        conds.append((V('u'), V('p')))
    rng.shuffle(conds)
    return list(sig), conds


def weak_shape(rng):
    """weakly-consistent shapes: (a) no finite layer, (b) finite + non-empty infinity layer"""
    k = rng.random()
    nat = rng.choice([2, 3, 3, 4])
    sig = NAMES[:nat]
    inf = []
    for _ in range(rng.randint(1, 2)):
        x = fml.rand_formula(rng, sig, rng.choice([0, 1, 1, 2]), 0.0)
        r = rng.random()
        if r < 0.4:
            inf.append((Not(x), x))             # (¬x|x): x infeasible
        elif r < 0.7:
            inf.append((BOT, x))
        else:
            y = fml.rand_formula(rng, sig, 1, 0.0)
            inf.append((y, And(x, Not(y))))     # antecedent contradicts consequent
    if k < 0.3:
        conds = inf
    else:
        _, fin = rand_base(rng, nat, rng.randint(1, 4), rng.choice([0, 1, 2]), 0.02)
        conds = fin + inf
        rng.shuffle(conds)
    return sig, conds


def classify(sig, conds):
    """('strong'|'weak'|'inconsistent', Setup or None)"""
    b = rm.Base(sig, conds)
    if not conds:
        return 'empty', None, b
    s = rm.Setup(b, False)
    if s.ok:
        return 'strong', s, b
    s = rm.Setup(b, True)
    if s.ok:
        return 'weak', s, b
    return 'inconsistent', None, b


def gen_base(rng, want='strong', family=None, max_tries=400, **kw):
    """generate until the class matches.  want: 'strong' | 'weak' (weak and not strong) |
    'weak_or_strong' | 'any'."""
    for _ in range(max_tries):
        fam = family or rng.choices(
            ['rand', 'chain', 'indep', 'd4', 'weak'],
            [6, 1, 2, 0.5, 3 if want in ('weak', 'weak_or_strong') else 0])[0]
        if fam == 'rand':
            sig, conds = rand_base(rng, **kw)
        elif fam == 'chain':
            sig, conds = penguin_chain(rng, rng.randint(2, 5))
        elif fam == 'indep':
            sig, conds = indep_layer_base(rng)
        elif fam == 'd4':
            sig, conds = d4_family(rng)
        else:
            sig, conds = weak_shape(rng)
        if want == 'any':
            return sig, conds, fam
        cls, _, _ = classify(sig, conds)
        if cls == want or (want == 'weak_or_strong' and cls in ('weak', 'strong')):
            return sig, conds, fam
    raise RuntimeError('generator starved for %s/%s' % (want, family))


def gen_queries(rng, sig, conds, k, extra_atom_p=0.05, depth=2):
    """k queries (B, A): random formulas, base-derived ones, hostile ones."""
    qs = []
    pool = list(sig)
    for _ in range(k):
        r = rng.random()
        s = pool + (['z'] if rng.random() < extra_atom_p else [])
        if r < 0.15 and conds:                      # own conditional
            qs.append(rng.choice(conds))
        elif r < 0.30 and conds:                    # strengthened antecedent
            B, A = rng.choice(conds)
            qs.append((B, And(A, fml.rand_formula(rng, s, 1, 0.0))))
        elif r < 0.40 and conds:                    # consequent of one under antecedent of another
            B, _ = rng.choice(conds)
            _, A = rng.choice(conds)
            qs.append((B if rng.random() < 0.7 else Not(B), A))
        elif r < 0.46:                              # trivial/hostile
            x = fml.rand_formula(rng, s, 1, 0.0)
            qs.append(rng.choice([(x, And(x, Not(x))), (BOT, x), (x, x), (TOP, x), (x, TOP),
                                  (And(x, Not(x)), fml.rand_formula(rng, s, 1, 0.0)),
                                  (x, BOT)]))
        else:
            qs.append((fml.rand_formula(rng, s, rng.randint(0, depth), 0.04),
                       fml.rand_formula(rng, s, rng.randint(0, depth), 0.04)))
    return qs

"""I3/I4: interposition on the real code — process monitor, worker delays / hangs with a
virtualised join, Deadline and Optimize.check fault injectors, call counters.
Everything is applied from outside (class attributes are replaced); the repository is not edited.
"""
import os
import time
import tempfile
import multiprocessing
import multiprocessing.process as mpp

from . import impl  # noqa: F401  (fixes sys.path, imports the repository)
from inference.inference import Inference
from inference import deadline as _deadline_mod


# ------------------------------------------------------------------ process monitor (I4)
class ProcMon:
    """records every process started through multiprocessing while active"""

    def __init__(self):
        self.events = []          # (kind, pid, role, key)
        self.procs = []           # (process object, role, key)
        self.hung_keys = set()
        self.virtual_timeouts = 0
        self._orig = {}
        self.active = False

    def install(self):
        mon = self
        self._orig = {'start': mpp.BaseProcess.start, 'join': mpp.BaseProcess.join,
                      'terminate': mpp.BaseProcess.terminate}
        orig_start, orig_join, orig_term = self._orig['start'], self._orig['join'], self._orig['terminate']

        def start(self_p):
            tgt = getattr(self_p, '_target', None)
            args = getattr(self_p, '_args', ())
            role = 'worker' if getattr(tgt, '__name__', '') == '_multi_inference_worker' else 'other'
            key = args[0] if role == 'worker' and args else None
            orig_start(self_p)
            mon.procs.append((self_p, role, key))
            mon.events.append(('start', self_p.pid, role, key))

        def join(self_p, timeout=None):
            for (p, role, key) in mon.procs:
                if p is self_p and role == 'worker' and key in mon.hung_keys and timeout is not None:
                    # virtualised: the schedule, not the wall clock, decides that this join timed out
                    mon.virtual_timeouts += 1
                    mon.events.append(('join-timeout(virtual)', self_p.pid, role, key))
                    return None
            r = orig_join(self_p, timeout)
            mon.events.append(('join', self_p.pid, None, None))
            return r

        def terminate(self_p):
            mon.events.append(('terminate', self_p.pid, None, None))
            return orig_term(self_p)
        mpp.BaseProcess.start = start
        mpp.BaseProcess.join = join
        mpp.BaseProcess.terminate = terminate
        self.active = True

    def uninstall(self):
        if self.active:
            mpp.BaseProcess.start = self._orig['start']
            mpp.BaseProcess.join = self._orig['join']
            mpp.BaseProcess.terminate = self._orig['terminate']
            self.active = False

    def reset(self):
        self.events, self.procs, self.virtual_timeouts = [], [], 0
        self.hung_keys = set()

    @staticmethod
    def state(pid):
        """'gone' | 'zombie' | 'alive'"""
        try:
            with open('/proc/%d/stat' % pid) as f:
                s = f.read()
            st = s.rsplit(')', 1)[1].split()[0]
            return 'zombie' if st == 'Z' else 'alive'
        except (FileNotFoundError, ProcessLookupError):
            return 'gone'

    def leftovers(self, grace=10.0):
        """processes started during the call that are still running.  A short grace period lets
        a just-terminated process disappear; the verdict does not depend on its length (a process
        that is merely slow to die is still reported only if it is alive at the end)."""
        t0 = time.time()
        while True:
            alive = [(p.pid, role, key) for (p, role, key) in self.procs if self.state(p.pid) == 'alive']
            if not alive or time.time() - t0 > grace:
                return alive
            time.sleep(0.05)

    def cleanup(self):
        for (p, role, key) in self.procs:
            try:
                if self.state(p.pid) == 'alive':
                    os.kill(p.pid, 9)
            except Exception:
                pass
            try:
                self._orig.get('join', mpp.BaseProcess.join)(p, 1)
            except Exception:
                pass


# ------------------------------------------------------------------ worker schedule (I3)
class WorkerSchedule:
    """per-query delays / hangs inside the forked worker body; completion order recorded in a
    file opened O_APPEND (children inherit the patch through fork)."""

    def __init__(self):
        self.delays = {}      # key -> seconds
        self.hang = set()
        self.dir = tempfile.mkdtemp(prefix='vfsched')
        self.log = os.path.join(self.dir, 'done')
        self._orig = None

    def install(self):
        sched = self
        self._orig = Inference._multi_inference_worker
        orig = self._orig

        def worker(self_i, index, query, mp_return_dict, timeout):
            d = sched.delays.get(index, 0)
            if d:
                time.sleep(d)
            if index in sched.hang:
                time.sleep(3600)
            r = orig(self_i, index, query, mp_return_dict, timeout)
            fd = os.open(sched.log, os.O_WRONLY | os.O_APPEND | os.O_CREAT)
            os.write(fd, ('%s\n' % (index,)).encode())
            os.close(fd)
            return r
        worker.__name__ = '_multi_inference_worker'
        Inference._multi_inference_worker = worker

    def uninstall(self):
        if self._orig is not None:
            Inference._multi_inference_worker = self._orig
            self._orig = None
        try:
            if os.path.exists(self.log):
                os.remove(self.log)
            os.rmdir(self.dir)
        except OSError:
            pass

    def completion_order(self):
        try:
            with open(self.log) as f:
                r = [l.strip() for l in f if l.strip()]
            os.remove(self.log)
            return r
        except FileNotFoundError:
            return []


# ------------------------------------------------------------------ Deadline faults (I3)
class DeadlineFaults:
    """logical-clock replacement of Deadline.expired / remaining_ms / remaining_seconds:
    from the k-th observation on, every deadline reads as expired.  k=None: count only."""

    def __init__(self):
        self.count = 0
        self.k = None
        self.log = []
        self._orig = None

    def install(self):
        D = _deadline_mod.Deadline
        self._orig = (D.expired, D.remaining_ms, D.remaining_seconds)
        me = self

        def tick(name):
            me.count += 1
            fired = me.k is not None and me.count >= me.k
            if len(me.log) < 400:
                me.log.append((me.count, name, fired))
            return fired

        def expired(self_d):
            return True if tick('expired') else False

        def remaining_ms(self_d):
            return 0 if tick('remaining_ms') else 3600 * 1000

        def remaining_seconds(self_d):
            return 0.0 if tick('remaining_seconds') else 3600.0
        D.expired, D.remaining_ms, D.remaining_seconds = expired, remaining_ms, remaining_seconds

    def arm(self, k):
        self.count = 0
        self.k = k
        self.log = []

    def uninstall(self):
        if self._orig:
            D = _deadline_mod.Deadline
            D.expired, D.remaining_ms, D.remaining_seconds = self._orig
            self._orig = None


class OptimizeFaults:
    """the k-th z3.Optimize.check() returns unknown.  variant 'A': without running the solver;
    variant 'B': after running it (a model exists, optimality not established)."""

    def __init__(self):
        self.count = 0
        self.k = None
        self.variant = 'A'
        self._orig = None

    def install(self):
        import z3
        self._orig = z3.Optimize.check
        orig = self._orig
        me = self

        def check(self_o, *a):
            me.count += 1
            if me.k is not None and me.count == me.k:
                if me.variant == 'B':
                    orig(self_o, *a)
                # a fresh result object, as the solver itself produces (not the module-level constant)
                return z3.CheckSatResult(z3.Z3_L_UNDEF)
            return orig(self_o, *a)
        z3.Optimize.check = check

    def arm(self, k, variant='A'):
        self.count = 0
        self.k = k
        self.variant = variant

    def uninstall(self):
        if self._orig:
            import z3
            z3.Optimize.check = self._orig
            self._orig = None


# ------------------------------------------------------------------ stall guard (logical steps, section 6.1)
class Stall(BaseException):
    """an enumeration made more solver calls than there are distinct outcomes: it cannot be making progress"""


class StallGuard:
    """counts RC2.compute() per RC2 instance.  With s soft clauses there are at most 2**s distinct sets of
    violated soft clauses, and the library blocks each set it has seen, so more than 2**s + 2 calls on one
    instance means the loop does not terminate.  Only applied when s <= 12 (exact bound, cheap)."""

    def __init__(self):
        self._orig = None
        self.max_seen = 0

    def install(self):
        from pysat.examples.rc2 import RC2
        self._orig = (RC2.__init__, RC2.compute)
        oi, oc = self._orig
        me = self

        def init(self_r, formula, *a, **kw):
            self_r._vf_soft = len(getattr(formula, 'soft', []) or [])
            self_r._vf_calls = 0
            return oi(self_r, formula, *a, **kw)

        def compute(self_r):
            self_r._vf_calls = getattr(self_r, '_vf_calls', 0) + 1
            me.max_seen = max(me.max_seen, self_r._vf_calls)
            s_ = getattr(self_r, '_vf_soft', 99)
            if s_ <= 12 and self_r._vf_calls > (1 << s_) + 2:
                raise Stall('RC2.compute called %d times with %d soft clauses' % (self_r._vf_calls, s_))
            return oc(self_r)
        RC2.__init__ = init
        RC2.compute = compute

    def uninstall(self):
        if self._orig:
            from pysat.examples.rc2 import RC2
            RC2.__init__, RC2.compute = self._orig
            self._orig = None

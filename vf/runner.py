"""Scheduling, watchdogs, classification, evidence, replay, exit codes.

exit 0: held on everything explored (KNOWN-FINDING lines possible)
exit 1: >= 1 unlisted violation, one `VIOLATION property=<id> replay=<path>` line per mechanism
exit 2: inconclusive (INCONCLUSIVE line, never a VIOLATION line)
"""
import argparse
import hashlib
import importlib
import json
import os
import queue
import select
import subprocess
import sys
import threading
import time

ROOT = os.path.dirname(os.path.dirname(os.path.abspath(__file__)))
PY = '/venv/bin/python'
WORK = os.path.join(ROOT, '.work')


def load_prop(pid):
    return importlib.import_module('vf.props.' + pid.lower())


def known_findings(pid):
    p = os.path.join(ROOT, 'known_findings.json')
    if not os.path.exists(p):
        return []
    d = json.load(open(p))
    return [f for f in d.get('findings', []) if f.get('property') == pid]


class Worker:
    def __init__(self, pid, wid, env):
        self.pid, self.wid, self.env = pid, wid, env
        self.proc = None
        self.n = 0

    def start(self):
        os.makedirs(WORK, exist_ok=True)
        log = open(os.path.join(WORK, '%s.w%d.log' % (self.pid, self.wid)), 'ab')
        self.proc = subprocess.Popen([PY, '-m', 'vf.worker', self.pid], cwd=ROOT, env=self.env,
                                     stdin=subprocess.PIPE, stdout=subprocess.PIPE, stderr=log)
        log.close()
        self.n = 0

    def kill(self):
        if self.proc and self.proc.poll() is None:
            try:
                self.proc.kill()
            except Exception:
                pass
            self.proc.wait()
        self.proc = None

    def run(self, case, hard_timeout):
        """returns result dict (or an inconclusive marker if the worker died / hung)"""
        if self.proc is None or self.proc.poll() is not None:
            self.start()
        try:
            self.proc.stdin.write((json.dumps(case) + '\n').encode())
            self.proc.stdin.flush()
        except Exception as e:
            self.kill()
            return {'inconclusive': ['worker pipe broken: %r' % (e,)]}
        buf = b''
        deadline = time.time() + hard_timeout
        fd = self.proc.stdout.fileno()
        while True:
            left = deadline - time.time()
            if left <= 0:
                self.kill()
                return {'inconclusive': ['hard watchdog (%ds) fired' % hard_timeout]}
            r, _, _ = select.select([fd], [], [], min(left, 1.0))
            if r:
                chunk = os.read(fd, 1 << 16)
                if not chunk:
                    rc = self.proc.poll()
                    self.kill()
                    return {'inconclusive': ['worker died (rc=%r) during case' % (rc,)], 'died': True}
                buf += chunk
                if buf.endswith(b'\n'):
                    break
        self.n += 1
        try:
            return json.loads(buf.decode().strip().splitlines()[-1])
        except Exception as e:
            self.kill()
            return {'inconclusive': ['unparsable worker output: %r' % (e,)]}


def sighash(s):
    return hashlib.sha1(s.encode()).hexdigest()[:12]


def main(argv=None):
    ap = argparse.ArgumentParser()
    ap.add_argument('prop')
    ap.add_argument('--tier', default=os.environ.get('VERIF_TIER', 'quick'))
    ap.add_argument('--seed', type=int, default=int(os.environ.get('VERIF_SEED', '0') or 0))
    ap.add_argument('--replay')
    ap.add_argument('--jobs', type=int, default=int(os.environ.get('VERIF_JOBS', '0') or 0))
    ap.add_argument('--budget', type=float, default=0.0, help='override time budget (s)')
    ap.add_argument('--limit', type=int, default=0, help='run only the first N cases (debug)')
    ap.add_argument('--no-evidence', action='store_true')
    a = ap.parse_args(argv)
    pid = a.prop.upper()
    tier = a.tier if a.tier in ('quick', 'thorough') else 'quick'
    mod = load_prop(pid)
    jobs = a.jobs or min(16, os.cpu_count() or 4)
    t0 = time.time()

    env = dict(os.environ)
    env.setdefault('PYTHONHASHSEED', '0')
    env['INFOCF_LOGLEVEL'] = env.get('INFOCF_LOGLEVEL', 'ERROR')
    env['INFOCF_VERIF'] = '1'
    env['VERIF_TIER'] = tier
    env['VERIF_SEED'] = str(a.seed)
    env['PYTHONPATH'] = ROOT + os.pathsep + os.path.join(ROOT, '.deps') + os.pathsep + env.get('PYTHONPATH', '')
    env['PYTHONDONTWRITEBYTECODE'] = '1'

    if a.replay:
        rp = json.load(open(a.replay))
        cases = [rp['case']]
        jobs = 1
    else:
        cases = list(mod.cases(tier, a.seed))
        if a.limit:
            cases = cases[:a.limit]
    budget = a.budget or getattr(mod, 'BUDGET', {}).get(tier, 100 if tier == 'quick' else 1500)
    hard = getattr(mod, 'HARD_TIMEOUT', 180)

    q = queue.Queue()
    for i, c in enumerate(cases):
        q.put((i, c))
    results = [None] * len(cases)
    skipped = [0]
    lock = threading.Lock()

    def loop(wid):
        w = Worker(pid, wid, env)
        recycle = getattr(mod, 'RECYCLE', 150)
        while True:
            try:
                i, c = q.get_nowait()
            except queue.Empty:
                break
            if time.time() - t0 > budget:
                with lock:
                    skipped[0] += 1
                continue
            r = w.run(c, hard)
            results[i] = r
            if w.n >= recycle:
                w.kill()
        w.kill()

    ths = [threading.Thread(target=loop, args=(k,), daemon=True) for k in range(min(jobs, max(1, len(cases))))]
    for t in ths:
        t.start()
    for t in ths:
        t.join()

    # ------------------------------------------------------------ aggregate
    evals = 0
    nontriv = set()
    counters = {}
    samples = []
    viols = {}      # sig -> list of (case, detail)
    incon = []
    ran = 0
    slow = sorted(((r.get('_t', 0), c) for c, r in zip(cases, results) if r is not None),
                  key=lambda x: -x[0])[:5]
    for c, r in zip(cases, results):
        if r is None:
            continue
        ran += 1
        evals += r.get('evals', 0)
        nontriv.update(r.get('nontrivial', []))
        for k, v in r.get('counters', {}).items():
            if isinstance(v, dict):
                d = counters.setdefault(k, {})
                for kk, vv in v.items():
                    d[kk] = d.get(kk, 0) + vv
            elif k.startswith('max_'):
                counters[k] = max(counters.get(k, 0), v)
            else:
                counters[k] = counters.get(k, 0) + v
        if r.get('sample') is not None and len(samples) < 6:
            samples.append(r['sample'])
        for v in r.get('violations', []):
            viols.setdefault(v['sig'], []).append((c, v))
        for s in r.get('inconclusive', []):
            incon.append({'case': c, 'why': s})

    known = known_findings(pid)
    known_sigs = {f['signature']: f for f in known}
    out_lines = []
    unlisted = []
    for sig, lst in sorted(viols.items()):
        if sig in known_sigs:
            out_lines.append('KNOWN-FINDING: property=%s %s [%s; observed %d times]'
                             % (pid, known_sigs[sig]['what'], sig, len(lst)))
        else:
            unlisted.append((sig, lst))

    rdir = os.path.join(ROOT, 'replays', pid)
    for sig, lst in unlisted[:12]:
        os.makedirs(rdir, exist_ok=True)
        path = os.path.join(rdir, sighash(sig) + '.json')
        case, v = lst[0]
        with open(path, 'w') as f:
            json.dump({'property': pid, 'signature': sig, 'count': len(lst), 'case': case,
                       'violation': v, 'tier': tier, 'seed': a.seed,
                       'hashseed': env.get('PYTHONHASHSEED')}, f, indent=1, default=str)
        out_lines.append('VIOLATION property=%s replay=%s  # %s (x%d) %s'
                         % (pid, path, sig, len(lst), json.dumps(v.get('detail'), default=str)[:300]))

    # ------------------------------------------------------------ inconclusive rules
    why_inc = []
    # floors of the thorough tier are 3x the quick floors (the thorough budgets are >= 10x the quick ones);
    # per-module 'thorough' entries are informative only
    floor = getattr(mod, 'FLOOR', {}).get('quick', 2) * (3 if tier == 'thorough' else 1)
    if not a.replay and not a.limit:
        if ran == 0:
            why_inc.append('no case ran')
        if len(nontriv) < floor:
            why_inc.append('only %d distinct non-trivial cases (floor %d)' % (len(nontriv), floor))
        if ran and len(incon) > max(2, 0.02 * ran):
            why_inc.append('%d of %d cases inconclusive, e.g. %s' % (len(incon), ran, incon[0]['why'][:200]))
        for k, m in getattr(mod, 'REQUIRED', {}).get('quick', {}).items():
            if tier == 'thorough' and not k.startswith('exhaustive'):
                m = 3 * m
            got = counters.get(k, 0)
            if isinstance(got, dict):
                got = len(got)          # dict counters: number of distinct keys observed
            if got < m:
                why_inc.append('monitor counter %s=%s below %s (deciding monitor not reached)' % (k, got, m))
        # hitting the time budget on a slow or loaded machine is not a verdict: the floors above decide
        # whether enough was observed

    wall = time.time() - t0
    if not a.replay and not a.limit and not a.no_evidence:
        ev = {
            'property_id': pid, 'tier': tier, 'seed': a.seed,
            'level': getattr(mod, 'LEVEL', 'exploration'),
            'coverage': {
                'evaluations': evals,
                'distinct_nontrivial': len(nontriv),
                'rule': mod.RULE,
                'samples': samples,
                'cases_generated': len(cases), 'cases_run': ran, 'cases_skipped_by_budget': skipped[0],
                'inconclusive_cases': len(incon),
                'inconclusive_examples': [x['why'][:300] for x in incon[:3]],
                'observed': counters,
                'slowest_cases': [{'seconds': t, 'case': c} for t, c in slow],
                'known_findings_reobserved': sorted(s for s in viols if s in known_sigs),
                'trusted_base': getattr(mod, 'TRUSTED', []),
                'exhaustive': False,
                'run_verdict': ('violated' if unlisted else 'inconclusive' if why_inc else 'held'),
                'run_inconclusive_reasons': why_inc,
            },
            'assumptions': getattr(mod, 'ASSUMPTIONS', []),
            'wall_s': round(wall, 2),
            'violations': len(unlisted),
        }
        os.makedirs(os.path.join(ROOT, 'evidence'), exist_ok=True)
        with open(os.path.join(ROOT, 'evidence', pid + '.json'), 'w') as f:
            json.dump(ev, f, indent=1, default=str, sort_keys=True)

    for l in out_lines:
        print(l)
    print('%s tier=%s seed=%d: %d/%d cases, %d judgements, %d distinct non-trivial, '
          '%d violation mechanisms (%d listed), %d inconclusive cases, %.1fs'
          % (pid, tier, a.seed, ran, len(cases), evals, len(nontriv), len(viols),
             len(viols) - len(unlisted), len(incon), wall))
    if os.environ.get('VERIF_SHOW_SLOW'):
        for t, c in slow:
            print('  slow %.1fs %s' % (t, json.dumps(c)))
    if a.replay:
        for c, r in zip(cases, results):
            print(json.dumps(r, indent=1, default=str)[:4000])
    if unlisted:
        return 1
    if why_inc:
        print('INCONCLUSIVE property=%s %s' % (pid, '; '.join(why_inc)))
        return 2
    return 0


if __name__ == '__main__':
    sys.exit(main())

"""M5 / M7 / M8: c-representations, Pareto minimality, c-revision oracles.

Pure Python except `counter_model_z3`, which uses z3 as a *certificate producer*: a `sat`
answer is re-checked by `is_crep` in Python; only `unsat` is trusted (trusted_base).
Imports nothing from the repository.
"""
import itertools
from . import fml


class CSys:
    """Falsification-vector view of a base: every world is reduced to the bit set of
    conditionals it falsifies; verifying/falsifying worlds of conditional i become sets of
    such bit sets."""

    def __init__(self, base):
        self.base = base
        n = len(base.conds)
        self.n = n
        self.wvec = {}
        for w in range(1 << base.n):
            v = 0
            for j in range(n):
                if (base.fal[j] >> w) & 1:
                    v |= 1 << j
            self.wvec[w] = v
        self.V = [self.vecs(base.ver[i]) for i in range(n)]
        self.F = [self.vecs(base.fal[i]) for i in range(n)]

    def vecs(self, mask):
        return sorted({self.wvec[w] for w in fml.bits(mask)})

    @staticmethod
    def S(eta, vec):
        s = 0
        j = 0
        while vec:
            if vec & 1:
                s += eta[j]
            vec >>= 1
            j += 1
        return s

    def kmin(self, eta, vecs):
        return min(self.S(eta, v) for v in vecs) if vecs else None

    def is_crep(self, eta):
        if any((not isinstance(e, int)) or e < 0 for e in eta) or len(eta) != self.n:
            return False
        for i in range(self.n):
            if not self.F[i]:
                continue
            if not self.V[i]:
                return False
            if not self.kmin(eta, self.V[i]) < self.kmin(eta, self.F[i]):
                return False
        return True

    def rank(self, eta, w):
        return self.S(eta, self.wvec[w])

    def accepts(self, eta, qver, qfal):
        v = self.kmin(eta, self.vecs(qver))
        f = self.kmin(eta, self.vecs(qfal))
        if v is None:
            return False
        return f is None or v < f

    # ---- skeptical c-inference -------------------------------------------------
    def counter_model_box(self, qver, qfal, U):
        """a c-representation in {0..U}^n with k(V) >= k(F), or None"""
        Vq, Fq = self.vecs(qver), self.vecs(qfal)
        for eta in itertools.product(range(U + 1), repeat=self.n):
            if self.kmin(eta, Vq) >= self.kmin(eta, Fq) and self.is_crep(eta):
                return eta
        return None

    def _z3_crep_constraints(self, z3, eta):
        cs = [e >= 0 for e in eta]

        def S(vec):
            ts = [eta[j] for j in range(self.n) if (vec >> j) & 1]
            return z3.Sum(ts) if ts else z3.IntVal(0)
        for i in range(self.n):
            if not self.F[i]:
                continue
            cs.append(z3.Or([z3.And([S(v) < S(f) for f in self.F[i]]) for v in self.V[i]]))
        return cs, S

    def counter_model_z3(self, qver, qfal):
        """returns ('sat', eta) with eta certified by is_crep, ('unsat', None), or
        ('unknown', why)"""
        import z3
        eta = [z3.Int('h%d' % j) for j in range(self.n)]
        cs, S = self._z3_crep_constraints(z3, eta)
        Vq, Fq = self.vecs(qver), self.vecs(qfal)
        cs.append(z3.Or([z3.And([S(f) <= S(v) for v in Vq]) for f in Fq]))
        s = z3.Solver()
        s.set('timeout', 20000)
        s.add(cs)
        r = s.check()
        if r == z3.unsat:
            return 'unsat', None
        if r != z3.sat:
            return 'unknown', 'z3 gave up'
        m = s.model()
        e = tuple(m.eval(x, model_completion=True).as_long() for x in eta)
        if self.is_crep(e) and self.kmin(e, Vq) >= self.kmin(e, Fq):
            return 'sat', e
        return 'unknown', 'z3 model failed certification %r' % (e,)

    def c_inference(self, qver, qfal, U=2):
        """(answer, witness).  answer True/False/None(inconclusive).  Trivial cases first."""
        if not qfal:
            return True, 'A&!B unsatisfiable'
        if not qver:
            return False, 'A&B unsatisfiable'
        e = self.counter_model_box(qver, qfal, U) if (U + 1) ** self.n <= 4096 else None
        if e is not None:
            return False, {'counter_crep': list(e)}
        st, e = self.counter_model_z3(qver, qfal)
        if st == 'sat':
            return False, {'counter_crep': list(e)}
        if st == 'unsat':
            return True, 'z3-unsat and no counter-model in box'
        return None, e

    # ---- Pareto minimality (M7) -----------------------------------------------
    def crep_exists(self):
        import z3
        eta = [z3.Int('h%d' % j) for j in range(self.n)]
        cs, _ = self._z3_crep_constraints(z3, eta)
        s = z3.Solver()
        s.add(cs)
        return s.check() == z3.sat

    def pareto_minimal(self, eta, pred=None):
        """no y <= eta, y != eta with pred(y) (default is_crep): exact, box below eta"""
        pred = pred or self.is_crep
        eta = tuple(eta)
        for y in itertools.product(*[range(e + 1) for e in eta]):
            if y != eta and pred(y):
                return False, y
        return True, None

    def pareto_front_box(self, U, pred=None):
        """all Pareto-minimal vectors with pred inside {0..U}^n"""
        pred = pred or self.is_crep
        sols = [y for y in itertools.product(range(U + 1), repeat=self.n) if pred(y)]
        front = [y for y in sols
                 if not any(z != y and all(a <= b for a, b in zip(z, y)) for z in sols)]
        return front


def pareto_front_of(vectors):
    vs = list({tuple(v) for v in vectors})
    return [y for y in vs if not any(z != y and all(a <= b for a, b in zip(z, y)) for z in vs)]

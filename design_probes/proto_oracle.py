"""Scratch brute-force oracle (prototype for DESIGN exploration)."""
import itertools, random, os, sys, warnings
warnings.filterwarnings("ignore")
os.environ.setdefault("INFOCF_LOGLEVEL", "ERROR")
sys.path.insert(0, "/repo")
from pysmt.shortcuts import Symbol, And, Or, Not, TRUE, FALSE
from pysmt.typing import BOOL
from inference.conditional import Conditional
from inference.belief_base import BeliefBase
from inference.queries import Queries
from inference.inference_manager import InferenceManager

# formula AST
def V(n): return ('var', n)
TOP = ('top',); BOT = ('bot',)
def ev(f, w):
    t = f[0]
    if t == 'var': return w[f[1]]
    if t == 'top': return True
    if t == 'bot': return False
    if t == 'not': return not ev(f[1], w)
    if t == 'and': return ev(f[1], w) and ev(f[2], w)
    if t == 'or': return ev(f[1], w) or ev(f[2], w)
    raise ValueError(t)
def to_pysmt(f):
    t = f[0]
    if t == 'var': return Symbol(f[1], BOOL)
    if t == 'top': return TRUE()
    if t == 'bot': return FALSE()
    if t == 'not': return Not(to_pysmt(f[1]))
    if t == 'and': return And(to_pysmt(f[1]), to_pysmt(f[2]))
    if t == 'or': return Or(to_pysmt(f[1]), to_pysmt(f[2]))
def to_text(f, top=True):
    t = f[0]
    if t == 'var': return f[1]
    if t == 'top': return 'Top'
    if t == 'bot': return 'Bottom'
    if t == 'not': return '!' + to_text(f[1], False)
    s = (',' if t == 'and' else ';').join(to_text(x, False) for x in f[1:])
    return '(' + s + ')'
def atoms(f, acc=None):
    acc = set() if acc is None else acc
    if f[0] == 'var': acc.add(f[1])
    else:
        for x in f[1:]:
            if isinstance(x, tuple): atoms(x, acc)
    return acc

def rand_formula(rng, sig, depth, p_const=0.05):
    if depth == 0 or rng.random() < 0.35:
        r = rng.random()
        if r < p_const: return TOP if rng.random() < 0.5 else BOT
        v = V(rng.choice(sig))
        return ('not', v) if rng.random() < 0.4 else v
    k = rng.random()
    if k < 0.2: return ('not', rand_formula(rng, sig, depth-1, p_const))
    op = 'and' if k < 0.6 else 'or'
    return (op, rand_formula(rng, sig, depth-1, p_const), rand_formula(rng, sig, depth-1, p_const))

def worlds(sig):
    for bits in itertools.product([False, True], repeat=len(sig)):
        yield dict(zip(sig, bits))

class Base:
    """conds: list of (B, A) ASTs"""
    def __init__(self, sig, conds):
        self.sig = list(sig); self.conds = list(conds)
        self.W = list(worlds(self.sig))
        # per world: verification/falsification bitsets
        self.ver = [[ev(A,w) and ev(B,w) for (B,A) in conds] for w in self.W]
        self.fal = [[ev(A,w) and not ev(B,w) for (B,A) in conds] for w in self.W]
    def partition(self, extended=False, extra=None, feasible=None):
        """returns (partition as list of lists of indices, inf layer list) or None if inconsistent.
        extra: additional (B,A) conditional appended with index n. feasible: list of world idxs allowed"""
        conds = list(range(len(self.conds)))
        ver, fal = self.ver, self.fal
        if extra is not None:
            B, A = extra
            n = len(self.conds)
            ver = [v + [ev(A,w) and ev(B,w)] for v, w in zip(self.ver, self.W)]
            fal = [f + [ev(A,w) and not ev(B,w)] for f, w in zip(self.fal, self.W)]
            conds.append(n)
        widx = list(range(len(self.W))) if feasible is None else list(feasible)
        rem = conds; part = []
        while rem:
            ok = [wi for wi in widx if not any(fal[wi][c] for c in rem)]
            tol = [c for c in rem if any(ver[wi][c] for wi in ok)]
            if not tol:
                if not extended: return None
                if not ok: return None  # every world falsifies one of remaining
                return part, rem
            part.append(tol); rem = [c for c in rem if c not in tol]
        return part, []

def ext_setup(base):
    """returns (finite partition, inf, feasible world idx) or None"""
    r = base.partition(extended=True)
    if r is None: return None
    part, inf = r
    feas = [wi for wi in range(len(base.W)) if not any(base.fal[wi][c] for c in inf)]
    return part, inf, feas

def zrank(base, part, wi):
    r = 0
    for li, layer in enumerate(part):
        if any(base.fal[wi][c] for c in layer): r = li + 1
    return r

def oracle(base, system, q, extended=False):
    """q = (B, A). returns bool, or 'REJECT' if the base is not acceptable."""
    B, A = q
    if not base.conds: return 'REJECT'
    if extended:
        s = ext_setup(base)
        if s is None: return 'REJECT'
        part, inf, feas = s
    else:
        r = base.partition(False)
        if r is None: return 'REJECT'
        part, inf = r; feas = list(range(len(base.W)))
    Wv = [wi for wi in feas if ev(A, base.W[wi]) and ev(B, base.W[wi])]
    Wf = [wi for wi in feas if ev(A, base.W[wi]) and not ev(B, base.W[wi])]
    if not Wf: return True           # covers A infeasible too
    if not Wv: return False
    if system == 'p-entailment':
        r = base.partition(False, extra=(('not', B), A), feasible=feas)
        # restricted to finite layers: drop inf conds -> they are never falsified in feas, but can they be verified? they are
        # in 'rem' forever if not tolerated... handle: conditionals in inf restricted to feas worlds are never falsified; they
        # are tolerated iff verified by an ok world; if never verifiable they'd block. So exclude them explicitly:
        if inf:
            sub = Base(base.sig, [base.conds[c] for c in range(len(base.conds)) if c not in inf])
            # feasible worlds indices are the same since same sig ordering
            r = sub.partition(False, extra=(('not', B), A), feasible=feas)
        return r is None
    if system == 'system-z':
        return min(zrank(base, part, wi) for wi in Wv) < min(zrank(base, part, wi) for wi in Wf)
    if system == 'system-w':
        def less(w1, w2):
            for layer in reversed(part):
                s1 = {c for c in layer if base.fal[w1][c]}; s2 = {c for c in layer if base.fal[w2][c]}
                if s1 == s2: continue
                return s1 < s2
            return False
        return all(any(less(w, wp) for w in Wv) for wp in Wf)
    if system == 'lex_inf':
        def vec(wi): return tuple(sum(1 for c in layer if base.fal[wi][c]) for layer in reversed(part))
        return min(vec(wi) for wi in Wv) < min(vec(wi) for wi in Wf)
    raise ValueError(system)

def make_bb(base, keys=None, name="gen"):
    keys = keys or list(range(1, len(base.conds)+1))
    conds = {}
    for k, (B, A) in zip(keys, base.conds):
        c = Conditional(to_pysmt(B), to_pysmt(A), f"({to_text(B)}|{to_text(A)})")
        c.index = k
        conds[k] = c
    return BeliefBase(list(base.sig), conds, name)
def make_q(qs, keys=None):
    keys = keys or list(range(1, len(qs)+1))
    d = {}
    for k, (B, A) in zip(keys, qs):
        d[k] = Conditional(to_pysmt(B), to_pysmt(A), f"({to_text(B)}|{to_text(A)})")
    return Queries(d)

def rand_base(rng, nat, ncond, depth=2, p_const=0.05):
    sig = [chr(ord('a')+i) for i in range(nat)]
    conds = [(rand_formula(rng, sig, depth, p_const), rand_formula(rng, sig, depth, p_const)) for _ in range(ncond)]
    return Base(sig, conds)

#!/venv/bin/python
"""Design-round witnesses for the observations D1-D15 in DESIGN.md section 6.4.

NOT part of the verification machinery: a throw-away script kept only so that every
line of the findings table can be re-observed against the real code in /repo
(`/venv/bin/python witnesses.py`).  Each witness prints what the definition demands
and what the pinned implementation does.
"""
import os, sys, signal, warnings
warnings.filterwarnings("ignore")
os.environ.setdefault("INFOCF_LOGLEVEL", "ERROR")
sys.path.insert(0, "/repo")
sys.path.insert(0, os.path.dirname(os.path.abspath(__file__)))
from parser.Wrappers import parse_belief_base, parse_queries, parse_formula
from inference.inference_manager import InferenceManager
from inference.belief_base import BeliefBase
from inference.queries import Queries


def mk(sig, conds):
    return parse_belief_base("signature\n" + ",".join(sig) + "\n\nconditionals\nkb{\n" + ",\n".join(conds) + "\n}\n")


def run(f, t=20):
    def h(*a):
        raise TimeoutError("watchdog (no progress)")
    signal.signal(signal.SIGALRM, h)
    signal.alarm(t)
    try:
        return f()
    except BaseException as e:  # noqa
        return f"EXC {type(e).__name__}: {str(e)[:110]}"
    finally:
        signal.alarm(0)


def ask(bb, system, q, **kw):
    return run(lambda: [bool(x) for x in InferenceManager(bb, system, **kw).inference(parse_queries(q))["result"]])


def show(tag, expected, observed):
    print(f"{tag:5s} expected {expected!s:32s} observed {observed}")


birds = mk("bpfw", ["(f|b)", "(!f|p)", "(b|p)", "(w|b)"])

# D1 constants survive the Tseitin step
b1 = mk("xy", ["(x|Top)"])
for s in ["system-w", "lex_inf", "c-inference"]:
    show("D1", "[True] (direct inference)", f"{s}/rc2 {ask(b1, s, '(x|Top)')}")
show("D1", "[False] (A&B unsatisfiable)", f"system-w/rc2 {ask(mk('abc', ['(b|a)', '(!a|c)', '(a|!c)']), 'system-w', '(Bottom|c,b,a)')}")

# D2 no finite layer
b2 = mk("abc", ["(!b|b)"])
for s, p in [("system-z", "rc2"), ("system-w", "rc2"), ("system-w", "z3"), ("lex_inf", "rc2"), ("lex_inf", "z3")]:
    show("D2", "[False] (a, !a both feasible)", f"{s}/{p} {ask(b2, s, '(a|c)', pmaxsat_solver=p, weakly=True)}")

# D3 z3 back-ends ignore the infinity layer
b3 = mk("ab", ["(b|a)", "(!a|(!a,b))", "(!a|a)", "(b|!a)"])
for s, p in [("system-w", "rc2"), ("system-w", "z3"), ("lex_inf", "rc2"), ("lex_inf", "z3")]:
    show("D3", "[False]", f"{s}/{p} {ask(b3, s, '((!!a;b)|((a,!b);!b))', pmaxsat_solver=p, weakly=True)}")

# D4 lex quantifies over every pair of minimum sets
b4 = mk("bpfwu", ["(f|b)", "(w|b)", "(b|p)", "(!f|p)", "(u|!b)"])
q4 = "(!(b,!w)|p,((!b,!u);(b,f)))"
for s, p in [("system-w", "rc2"), ("lex_inf", "rc2"), ("lex_inf", "z3")]:
    show("D4", "[True] (W True => lex True)", f"{s}/{p} {ask(b4, s, q4, pmaxsat_solver=p)}")

# D5 unfalsifiable conditional
b5 = mk("ab", ["(b|a)", "(a|a)"])
show("D5", "[False, False, True]", f"c-inference {ask(b5, 'c-inference', '(!b|a),(a|b),(b|a)')}")
from inference.preocf import PreOCF, RandomMinCRepPreOCF
show("D5", "impacts e.g. [1, 0]", run(lambda: PreOCF.init_random_min_c_rep(b5).save_impacts()))

# D6 second call on a c-inference manager
m = InferenceManager(mk("ab", ["(b|a)"]), "c-inference")
run(lambda: m.inference(parse_queries("(b|a)")))
show("D6", "[True, False]", run(lambda: [bool(x) for x in m.inference(parse_queries("(b|a),(a|b)"))["result"]]))

# D7 keys
def rekey(bb, keys):
    return BeliefBase(bb.signature, dict(zip(keys, bb.conditionals.values())), bb.name)
show("D7", "[True] ((f|b) is in the base)", f"p-entailment keys 0..3 {ask(rekey(birds, [0, 1, 2, 3]), 'p-entailment', '(f|b)')}")
show("D7", "[True, False]", f"c-inference keys 2,5,7,11 {ask(rekey(birds, [2, 5, 7, 11]), 'c-inference', '(w|p),(f|p)')}")

# D8 parser not anchored at EOF
for s in ["a b", "a,b)", "a ! b", "a\nb"]:
    show("D8", "syntax error", f"parse_formula({s!r}) -> {run(lambda: parse_formula(s))}")
show("D8", "syntax error", "base + trailing text -> " + str(run(lambda: len(parse_belief_base("signature\na,b\n\nconditionals\nkb{\n(b|a)\n}\ngarbage here").conditionals))) + " conditional(s)")
show("D8", "syntax error", "queries '(b|a)}(a|b)' -> " + str(run(lambda: {k: str(c) for k, c in parse_queries("(b|a)}(a|b)").conditionals.items()})))

# D9 duplicate query texts
df = InferenceManager(birds, "system-w").inference(parse_queries("(w|p),(f|p),(w|p)"))
show("D9", "keys [1, 2, 3]", f"index column {list(df['index'])}")

# D10 solver gives up
import z3
orig = z3.Optimize.check
state = {"n": 0}
def check(self, *a):
    state["n"] += 1
    return z3.unknown if state["n"] == 3 else orig(self, *a)
z3.Optimize.check = check
r = run(lambda: InferenceManager(birds, "system-w", pmaxsat_solver="z3").inference(parse_queries("(w|p),(f|p)"), inference_timeout=100))
z3.Optimize.check = orig
show("D10", "rows, 3rd check flagged timed out", r if isinstance(r, str) else list(zip(r["result"], r["inference_timed_out"])))

# D11 / D12 Pareto plumbing
from inference.c_revision import c_inference_pareto_front, c_revision
show("D11", "[(1, 2, 2, 1)]", run(lambda: c_inference_pareto_front(birds)))
show("D12", "[(1,)] and termination", run(lambda: c_inference_pareto_front(mk("ab", ["(b|a)"])), 8))
show("D12", "[(1,)]", run(lambda: c_inference_pareto_front(mk("ab", ["(b|a)"]), max_solutions=3)))

# D13 gamma+ free: contradictory revision set must yield None
import proto_oracle as po
sig = ["a", "b"]
ocf = PreOCF.init_custom({"00": 1, "01": 3, "10": 0, "11": 0}, None, sig)
conds = []
for i, t in enumerate(["(!b|a)", "(!b|a)", "(b|a)"], 1):
    c = list(parse_queries(t).conditionals.values())[0]; c.index = i; conds.append(c)
show("D13", "None (no parameters exist)", run(lambda: c_revision(ocf, conds, gamma_plus_zero=False)))

# D14 writer/reader disagree on the format
c = PreOCF.init_random_min_c_rep(birds)
c.save_meta("k", {"a": [1, 2]})
for path in ["/tmp/_w.meta", "/tmp/_w.JSON"]:
    c.save_metadata(path)
    c2 = RandomMinCRepPreOCF.init_with_impacts_list(birds, [0, 0, 0, 0])
    show("D14", "metadata round-trips", f"{path}: {run(lambda: c2.load_metadata(path))}")
    os.remove(path)
c.export_impacts("/tmp/_w.dat")
c2 = RandomMinCRepPreOCF.init_with_impacts_list(birds, [0, 0, 0, 0])
show("D14", "impacts round-trip", f"/tmp/_w.dat: {run(lambda: c2.import_impacts('/tmp/_w.dat'))}")
os.remove("/tmp/_w.dat")

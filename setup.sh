#!/bin/sh
# offline bootstrap: runtime-contract libraries beside the repository's interpreter
cd "$(dirname "$0")" || exit 1
if [ ! -d .deps/icontract ]; then
  PIP_NO_INDEX=1 /venv/bin/pip install --quiet --no-index --find-links /opt/veriftools/wheels --target .deps icontract deal 2>&1 | grep -v condarc
fi
/venv/bin/python -c "import sys; sys.path.insert(0,'.deps'); import icontract" 2>/dev/null || echo "icontract unavailable: hand-written wrappers are used instead"
exit 0

#!/venv/bin/python
"""Deliberate one-line breaks (DESIGN.md section 8.3) applied to a scratch worktree of /repo; each is
run against the checks that should notice.  Usage: tools/own_mutants.py [name-substring ...]"""
import json, os, subprocess, sys
WT = '/tmp/mut/own'
M = [
 # name, file, old, new, checks
 ('z_strict_le', 'inference/system_z.py', "        if not v:\n            return False\n", "        if not v:\n            return True\n", ['C02', 'C16', 'C08']),
 ('z_skip_layer0', 'inference/system_z.py', "            if partition_index == 0:\n                return False\n            return self._rec_inference(solver, partition_index - 1, query)", "            if partition_index <= 1:\n                return False\n            return self._rec_inference(solver, partition_index - 1, query)", ['C02', 'C08', 'C09']),
 ('w_superset', 'inference/system_w.py', "    return all(any(a.issubset(b) for a in A) for b in B)", "    return all(any(a.issuperset(b) for a in A) for b in B)", ['C03', 'C11', 'C08']),
 ('w_no_tie_recursion', 'inference/system_w.py', "        for xi_i in xi_i_set & xi_i_prime_set:\n            if partition_index == 0:\n                return False", "        for xi_i in xi_i_set & xi_i_prime_set:\n            return False", ['C03', 'C11']),
 ('mcs_no_remove_supersets', 'inference/optimizer.py', "        xMins_lst: list[list[int]] = remove_supersets(xMins)", "        xMins_lst: list[list[int]] = [list(s) for s in xMins]", ['C15', 'C03', 'C05']),
 ('mcs_no_blocking_helper', 'inference/optimizer.py', "        return_constraints.append(helper_variables_clause)\n", "", ['C15', 'C03', 'C07']),
 ('lex_max_card', 'inference/lex_inf.py', "        min_len_v = min(len(xi) for xi in mcs_v)", "        min_len_v = max(len(xi) for xi in mcs_v)", ['C04', 'C11']),
 ('lex_all_pairs_again', 'inference/lex_inf_z3.py', "            if better_than_all:\n                return True\n        return False", "            if not better_than_all:\n                return False\n        return True", ['C04', 'C11', 'C08']),
 ('cinf_ge', 'inference/c_inference.py', "            csp.append(GT(eta, mv - mf))", "            csp.append(GE(eta, mv - mf))", ['C05', 'C17', 'C08']),
 ('cinf_query_gt', 'inference/c_inference.py', "        csp = vM + fM + [GE(mv, mf)]", "        csp = vM + fM + [GT(mv, mf)]", ['C05', 'C09']),
 ('cons_pop_missing', 'inference/consistency_sat.py', "            partition.append(R)\n            conditionals = C\n            # reset the solver sothat it wont consider the currently found partition anymore\n            s.pop()\n\n\ndef consistency_indices", "            partition.append(R)\n            conditionals = C + R[:0]\n            # reset the solver sothat it wont consider the currently found partition anymore\n            s.pop()\n\n\ndef consistency_indices", []),
 ('cons_weak_no_knowledge_check', 'inference/consistency_sat.py', "                    knowledge_sat = s.solve()\n                    if not knowledge_sat:\n                        # Even the A→B knowledge is inconsistent → genuinely inconsistent\n                        return False, ([len(C)], calls, levels)", "                    knowledge_sat = True", ['C06', 'C07']),
 ('cons_indices_order', 'inference/consistency_sat.py', "                if s.solve():\n                    R.append(i)\n                else:\n                    C.append(i)", "                if s.solve():\n                    R.insert(0, i)\n                else:\n                    C.append(i)", ['C06']),
 ('parser_swap_and_or', 'parser/myVisitor.py', "        right = self.visit(ctx.right)\n        return Or(left, right)", "        right = self.visit(ctx.right)\n        return And(left, right)", ['C10']),
 ('parser_keys_from_0', 'parser/myVisitor.py', "                i: c for i, c in enumerate(self.visit(ctx.condition()), start=1)", "                i: c for i, c in enumerate(self.visit(ctx.condition()), start=0)", ['C10']),
 ('parser_swap_cond', 'parser/myVisitor.py', "        c = Conditional(consequent, antecedent, text, weak=False)", "        c = Conditional(antecedent, consequent, text, weak=False)", ['C10']),
 ('engine_suffix_ignored', 'inference/optimizer.py', "        if not sat_solver:\n            sat_solver = \"g3\"", "        sat_solver = \"g3\"", []),
 ('pent_key_collision', 'inference/p_entailment.py', "        conditionals[max(conditionals, default=0) + 1] = falsified_query", "        conditionals[len(conditionals) + 1] = falsified_query", ['C12']),
 ('manager_cache_query_cnf', 'inference/system_w.py', "        translated_query = tseitin_transformation.query_to_cnf(query)\n        self.epistemic_state[\"v_cnf_dict\"][QUERY_KEY] = translated_query[0]\n        self.epistemic_state[\"f_cnf_dict\"][QUERY_KEY] = translated_query[1]", "        if QUERY_KEY not in self.epistemic_state[\"v_cnf_dict\"]:\n            translated_query = tseitin_transformation.query_to_cnf(query)\n            self.epistemic_state[\"v_cnf_dict\"][QUERY_KEY] = translated_query[0]\n            self.epistemic_state[\"f_cnf_dict\"][QUERY_KEY] = translated_query[1]", ['C13', 'C03']),
 ('multi_join_no_terminate', 'inference/inference.py', "                    p.terminate()\n                    p.join()  # Ensure the process has terminated\n", "", ['C13']),
 ('timeout_swallowed_true', 'inference/inference.py', "            except TimeoutError:\n                result_dict[index] = (\n                    index,\n                    False,\n                    True,", "            except TimeoutError:\n                result_dict[index] = (\n                    index,\n                    True,\n                    False,", ['C14']),
 ('rc2_no_deadline_poll', 'inference/optimizer.py', "                if deadline and deadline.expired():\n                    raise TimeoutError\n", "", []),
 ('z3_unknown_as_unsat', 'inference/system_w_z3.py', "            if check != sat:\n                # the solver gave up (time budget exhausted): no model may be read; report\n                # the query as timed out instead of treating 'unknown' like 'sat'\n                raise TimeoutError", "            if check != sat:\n                return xi_i_set", ['C14']),
 ('save_no_restore', 'inference/preocf.py', "        try:\n            with path.open(\"wb\") as fd:\n                pickle.dump(self, fd, protocol=protocol)\n        finally:\n", "        if True:\n            with path.open(\"wb\") as fd:\n                pickle.dump(self, fd, protocol=protocol)\n        if True:\n", ['C20']),
 ('formula_rank_first', 'inference/preocf.py', "                if min_rank is None or rank < min_rank:\n                    min_rank = rank", "                if min_rank is None:\n                    min_rank = rank", ['C18', 'C16']),
 ('accept_le', 'inference/preocf.py', "        return v_rank < n_rank", "        return v_rank <= n_rank", ['C18', 'C16', 'C17']),
 ('marginalize_max', 'inference/preocf.py', "                    ranks[new_world] = min(curr_rank, world_rank)", "                    ranks[new_world] = max(curr_rank, world_rank)", ['C18']),
 ('zrank_infeasible_off_by_one', 'inference/preocf.py', "            return self._rec_z_rank(solver, partition_index - 1)\n        return partition_index + 1\n", "            return self._rec_z_rank(solver, partition_index - 1)\n        return partition_index + (0 if self.uses_extended_partition and partition_index == len(self._z_partition) - 1 else 1)\n", ['C16']),
 ('crevmodel_no_discard', 'inference/c_revision_model.py', "            self.world_rej[w].discard(index)", "            pass", ['C19']),
 ('compile_fast_mask', 'inference/c_revision.py', "                if bits[a_idx] == a_val:\n                    if bits[c_idx] == c_val:\n                        accepted_list.append(cast(int, cond.index))", "                if bits[a_idx] == a_val:\n                    if bits[c_idx] == c_val and a_idx != c_idx:\n                        accepted_list.append(cast(int, cond.index))", ['C19']),
 ('crep_impacts_off_by_one', 'inference/preocf.py', "            solver.add_assertion(cond.make_A_then_not_B())\n            if solver.solve():\n                rank += self._impacts[idx - 1]\n        return rank\n\n    # ------------------------------------------------------------------", "            solver.add_assertion(cond.make_A_then_not_B())\n            if solver.solve():\n                rank += self._impacts[(idx - 2) % len(self._impacts)]\n        return rank\n\n    # ------------------------------------------------------------------", ['C17', 'C20']),
 ('tseitin_drop_false', 'inference/tseitin_transformation.py', "                cnf.extend([[false_id], [-false_id]])\n                continue", "                continue", ['C15', 'C03']),
 ('general_inference_only_A', 'inference/inference.py', "        if is_unsat(query.antecedence) or is_unsat(\n            And(query.antecedence, Not(query.consequence))\n        ):", "        if is_unsat(query.antecedence):", ['C01', 'C02', 'C09']),
 ('load_meta_update_wrong', 'inference/preocf.py', "        self._metadata.update(data)", "        self._metadata = data if not self._metadata else self._metadata", ['C20']),
]

def sh(*a, **k):
    return subprocess.run(*a, capture_output=True, text=True, **k)

def main():
    sel = sys.argv[1:]
    if not os.path.exists(WT):
        sh(['git', '-C', '/repo', 'worktree', 'add', '-q', '--detach', WT, 'HEAD'])
    sh(['git', '-C', WT, 'checkout', '-q', '--detach', sh(['git', '-C', '/repo', 'rev-parse', 'HEAD']).stdout.strip()])
    sh(['git', '-C', WT, 'checkout', '--', '.'])
    out = {}
    for name, f, old, new, checks in M:
        if sel and not any(s in name for s in sel):
            continue
        p = os.path.join(WT, f)
        s = open(p).read()
        if s.count(old) != 1:
            print('%-32s PATTERN NOT FOUND (%d)' % (name, s.count(old)))
            continue
        open(p, 'w').write(s.replace(old, new))
        row = {}
        for c in checks:
            r = sh(['./check', c, '--no-evidence', '--budget', '70'], cwd=os.path.dirname(os.path.dirname(os.path.abspath(__file__))),
                   env=dict(os.environ, VERIF_REPO=WT))
            row[c] = 'CAUGHT' if r.returncode == 1 else 'inconclusive' if r.returncode == 2 else 'missed'
        sh(['git', '-C', WT, 'checkout', '--', '.'])
        out[name] = row
        print('%-32s %s' % (name, row), flush=True)
    json.dump(out, open('/tmp/own_mutants.json', 'w'), indent=1)

if __name__ == '__main__':
    main()

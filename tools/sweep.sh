#!/bin/sh
# seed sweep: ./tools/sweep.sh <tier> <seeds...>   (writes no evidence; SWEEP_CHECKS="01 02" restricts it)
tier=$1; shift
for s in "$@"; do
  for i in ${SWEEP_CHECKS:-01 02 03 04 05 06 07 08 09 10 11 12 13 14 15 16 17 18 19 20}; do
    out=$(PYTHONHASHSEED=$((s % 3)) ./check C$i --tier $tier --seed $s --no-evidence 2>&1 | grep -v '^KNOWN-FINDING')
    echo "$out" | tail -3 | cut -c1-400
  done
done

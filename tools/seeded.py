#!/venv/bin/python
"""Intake of independently written property-breaking changes.
  tools/seeded.py verify <Cxx> <i>   confirm in a scratch worktree: demo fails with the change, passes without, repo suite passes with it
  tools/seeded.py run <name> [checks...]   run checks against seeded/<name>/patch.diff in a scratch worktree (VERIF_REPO)
"""
import json, os, re, shutil, subprocess, sys
ROOT = os.path.dirname(os.path.dirname(os.path.abspath(__file__)))
PY = '/venv/bin/python'


def sh(cmd, **k):
    return subprocess.run(cmd, capture_output=True, text=True, **k)


def worktree(path):
    if os.path.exists(path):
        sh(['git', '-C', '/repo', 'worktree', 'remove', '--force', path])
    r = sh(['git', '-C', '/repo', 'worktree', 'add', '-q', '--detach', path, 'HEAD'])
    assert r.returncode == 0, r.stderr


def drop(path):
    sh(['git', '-C', '/repo', 'worktree', 'remove', '--force', path])
    shutil.rmtree(path, ignore_errors=True)


def verify(pid, i, root='/tmp/mut', tag='m'):
    src = '%s/%s/out' % (root, pid)
    name = '%s-%s%s' % (pid, tag, i)
    dst = os.path.join(ROOT, 'seeded', name)
    os.makedirs(dst, exist_ok=True)
    if os.path.exists(os.path.join(src, 'm%s.diff' % i)):
        shutil.copy(os.path.join(src, 'm%s.diff' % i), os.path.join(dst, 'patch.diff'))
        demo = open(os.path.join(src, 'm%s_demo.py' % i)).read()
        open(os.path.join(dst, 'demo.py'), 'w').write(demo)
    wt = '%s/%s' % (root, pid)          # the path of the writer's worktree (demos may assert their import path)
    if not os.path.exists(os.path.join(wt, 'inference')):
        worktree(wt)
    sh(['git', '-C', wt, 'checkout', '--', '.'])
    env = dict(os.environ, PYTHONPATH=wt, INFOCF_LOGLEVEL='ERROR')
    env.pop('INFOCF_VERIF', None)
    os.makedirs(wt + '/out', exist_ok=True)
    shutil.copy(os.path.join(dst, 'demo.py'), wt + '/out/m%s_demo.py' % i)
    res = {}
    r = sh([PY, 'out/m%s_demo.py' % i], cwd=wt, env=env, timeout=900)
    res['demo_clean_exit'] = r.returncode
    a = sh(['git', '-C', wt, 'apply', os.path.join(dst, 'patch.diff')])
    res['applies'] = a.returncode == 0
    r = sh([PY, 'out/m%s_demo.py' % i], cwd=wt, env=env, timeout=900)
    res['demo_changed_exit'] = r.returncode
    res['demo_changed_tail'] = (r.stdout + r.stderr)[-300:]
    t = sh([PY, '-m', 'pytest', '-q', '-p', 'no:cacheprovider', '--timeout=900', 'unittests'], cwd=wt, env=env, timeout=3000)
    tail = (t.stdout.strip().splitlines() or [''])[-1]
    res['suite_with_change'] = tail
    res['files'] = sh(['git', '-C', wt, 'diff', '--stat']).stdout.strip().splitlines()[:-1]
    sh(['git', '-C', wt, 'checkout', '--', '.'])
    ok = (res['demo_clean_exit'] == 0 and res['applies'] and res['demo_changed_exit'] != 0
          and re.search(r'\b82 passed', tail) and 'failed' not in tail)
    res['confirmed'] = bool(ok)
    old = json.load(open(os.path.join(dst, 'meta.json'))) if os.path.exists(os.path.join(dst, 'meta.json')) else {}
    notes = open(os.path.join(src, 'notes.md')).read() if os.path.exists(os.path.join(src, 'notes.md')) else \
        (open(os.path.join(dst, 'notes.md')).read() if os.path.exists(os.path.join(dst, 'notes.md')) else '')
    meta = {'name': name, 'checks': old.get('checks', {}), 'breaks_property': pid, 'written_by': 'independent sub-agent given only the property text and a scratch worktree',
            'needs_to_manifest': 'see notes.md', 'verification': res,
            'what_i_ran': 'tools/seeded.py verify %s %s: demo on clean worktree (exit 0), git apply, demo (exit != 0), full unittests with the change (82 passed)' % (pid, i)}
    json.dump(meta, open(os.path.join(dst, 'meta.json'), 'w'), indent=1)
    open(os.path.join(dst, 'notes.md'), 'w').write(notes)
    print(name, 'CONFIRMED' if ok else 'NOT CONFIRMED', json.dumps(res)[:400])


def run(name, checks):
    dst = os.path.join(ROOT, 'seeded', name)
    wt = '/tmp/mut/run-%s' % name
    worktree(wt)
    a = sh(['git', '-C', wt, 'apply', os.path.join(dst, 'patch.diff')])
    assert a.returncode == 0, a.stderr
    out = {}
    for c in checks:
        r = sh(['./check', c, '--no-evidence'], cwd=ROOT, env=dict(os.environ, VERIF_REPO=wt))
        v = [l for l in r.stdout.splitlines() if l.startswith('VIOLATION')]
        out[c] = {'verdict': 'CAUGHT' if r.returncode == 1 else 'inconclusive' if r.returncode == 2 else 'missed',
                  'mechanisms': [re.sub(r'.*#\s*', '', l)[:160] for l in v[:3]]}
        print(name, c, out[c]['verdict'], (out[c]['mechanisms'] or [''])[0][:140], flush=True)
    drop(wt)
    mp = os.path.join(dst, 'meta.json')
    meta = json.load(open(mp))
    meta.setdefault('checks', {}).update(out)
    json.dump(meta, open(mp, 'w'), indent=1)


if __name__ == '__main__':
    if sys.argv[1] == 'verify':
        verify(*sys.argv[2:])
    else:
        run(sys.argv[2], sys.argv[3:])

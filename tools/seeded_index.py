#!/venv/bin/python
"""seeded/INDEX.md: one line per seeded change with the last recorded verdict of every check run against it."""
import glob, json, os
ROOT = os.path.dirname(os.path.dirname(os.path.abspath(__file__)))
rows = []
for p in sorted(glob.glob(os.path.join(ROOT, 'seeded', '*', 'meta.json'))):
    m = json.load(open(p))
    ch = m.get('checks', {})
    own = m['breaks_property']
    caught = sorted(k for k, v in ch.items() if v['verdict'] == 'CAUGHT')
    missed = sorted(k for k, v in ch.items() if v['verdict'] != 'CAUGHT')
    rows.append((m['name'], own, m['verification'].get('confirmed'), caught, missed, own in caught))
with open(os.path.join(ROOT, 'seeded', 'INDEX.md'), 'w') as f:
    f.write('# Seeded changes (last recorded run of each check; `tools/seeded.py run <name> <checks>` re-runs)\n\n')
    f.write('| change | written against | confirmed here | caught by | run but missed |\n|---|---|---|---|---|\n')
    for r in rows:
        f.write('| %s | %s | %s | %s | %s |\n' % (r[0], r[1], 'yes' if r[2] else 'NO', ' '.join(r[3]) or '-', ' '.join(r[4]) or '-'))
    n = len(rows)
    f.write('\n%d changes; %d confirmed; %d caught by at least one check; %d caught by the check of their own property.\n'
            % (n, sum(1 for r in rows if r[2]), sum(1 for r in rows if r[3]), sum(1 for r in rows if r[5])))
print(open(os.path.join(ROOT, 'seeded', 'INDEX.md')).read().splitlines()[-1])

#!/venv/bin/python
"""Prints a markdown table of what the last run of every check observed (from evidence/*.json)."""
import glob, json, os
ROOT = os.path.dirname(os.path.dirname(os.path.abspath(__file__)))
print('| check | tier/seed | cases | judgements | distinct non-trivial | verdict | wall s | notable counters |')
print('|---|---|---|---|---|---|---|---|')
for p in sorted(glob.glob(os.path.join(ROOT, 'evidence', 'C*.json'))):
    d = json.load(open(p))
    c = d['coverage']
    o = c.get('observed', {})
    keys = [k for k in o if not isinstance(o[k], (dict, list)) and not k.startswith(('instances_', 'max_'))][:6]
    print('| %s | %s/%s | %s/%s | %s | %s | %s | %s | %s |' % (
        d['property_id'], d['tier'], d['seed'], c.get('cases_run'), c.get('cases_generated'), c['evaluations'],
        c['distinct_nontrivial'], c.get('run_verdict'), d['wall_s'], ', '.join('%s=%s' % (k, o[k]) for k in keys)))

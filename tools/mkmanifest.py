#!/venv/bin/python
"""Regenerates MANIFEST.json from the property modules that exist under vf/props."""
import importlib, json, os, sys
ROOT = os.path.dirname(os.path.dirname(os.path.abspath(__file__)))
sys.path.insert(0, ROOT)
os.environ.setdefault('INFOCF_LOGLEVEL', 'ERROR')

TECH = {
 'C01': 'reference-model monitor (tolerance-partition definition on enumerated worlds; satisfiability-based on large bases) over generated and corpus bases',
 'C02': 'reference-model monitor (Z-rank comparison on enumerated worlds; satisfiability-based on large bases)',
 'C03': 'reference-model monitor (preferred-structure definition; counterexample-guided on large bases), both MaxSAT back-ends',
 'C04': 'reference-model monitor (lexicographic count vectors; cardinality-bounded satisfiability on large bases), both MaxSAT back-ends',
 'C05': 'reference-model monitor (bounded brute force + certified z3 counter-models over c-representations)',
 'C06': 'reference-model monitor on consistency/partition/diagnostics + refusal events',
 'C07': 'reference-model monitor restricted to feasible worlds; exceptions are events',
 'C08': 'relational monitor over result columns of the real operators (any size)',
 'C09': 'relational (postulate) monitor over batches of related queries',
 'C10': 'truth-table oracle on parsed formulas + independent recogniser for malformed text',
 'C11': 'differential monitor across all usable pmaxsat back-ends / SAT engines',
 'C12': 'metamorphic monitor (rekey, permute, rename, rewrite) on programmatic bases',
 'C13': 'history monitor with injected worker delays and a process monitor',
 'C14': 'fault enumeration on Deadline reads and Optimize.check results by logical index, plus real fractional budgets on corpus bases (real clock, no injection)',
 'C15': 'runtime contracts on CNF translation (DPLL judge) and correction-set enumeration (world enumeration)',
 'C16': 'reference-model monitor on ranks/acceptance with lazy-order histories and cache contract',
 'C17': 'reference-model monitor (c-representation check, exact Pareto box) + bounded-progress counter',
 'C18': 'reference-model monitor on ranking-function algebra',
 'C19': 'reference-model monitor (revised ranking acceptance, box search, compilation multisets, add/remove histories)',
 'C20': 'fault enumeration on save paths + differential with the live object, fresh-process reload',
}
NOTE = {
 'exploration': 'Decides only the executions produced: generated/shaped/corpus inputs, seeds, bounded signatures. Trusted: Python, the reference models under vf/ (self-tested at start-up), and what the module lists under TRUSTED.',
 'fault_enumeration': 'Fault points are enumerated by logical index for the generated workloads, not for all programs. Trusted: Python, the interposition wrappers under vf/instrument.py, the reference answers of an un-faulted run of the real code.',
}
checks = []
claimed = []
for i in range(1, 21):
    pid = 'C%02d' % i
    if not os.path.exists(os.path.join(ROOT, 'vf', 'props', pid.lower() + '.py')):
        continue
    m = importlib.import_module('vf.props.' + pid.lower())
    if getattr(m, 'NOT_READY', False):
        continue
    claimed.append(pid)
    lvl = getattr(m, 'LEVEL', 'exploration')
    checks.append({
        'property_id': pid,
        'quick_cmd': './check %s --tier quick' % pid,
        'thorough_cmd': './check %s --tier thorough' % pid,
        'evidence_file': '/verif/evidence/%s.json' % pid,
        'replay_cmd_template': './check %s --replay {path}' % pid,
        'engine': 'vf',
        'level_claimed': {'category': lvl,
                          'text': (m.__doc__ or '').strip().splitlines()[0] + ' Held-on-observed-executions claim: ' + m.RULE[:400],
                          'design_ref': 'DESIGN.md section 7 ' + pid},
        'level_note': NOTE[lvl] + ((' ' + '; '.join(m.TRUSTED)) if getattr(m, 'TRUSTED', None) else ''),
        'technique': TECH[pid],
    })
na = [{'property_id': 'C%02d' % i,
       'reason': 'check not built yet in this round (planned, DESIGN.md section 7); not out of reach of the technique'}
      for i in range(1, 21) if 'C%02d' % i not in claimed]
man = {
 'version': 1,
 'setup_cmd': './setup.sh',
 'hooks': {'guard': 'INFOCF_VERIF',
           'enable': 'no source hooks: all instrumentation is interposed from /verif/vf at import time (wrappers, contracts, fault injectors); INFOCF_VERIF=1 is exported by the checks but the repository does not read it',
           'baseline_off_cmd': 'cd /repo && env -u INFOCF_VERIF /venv/bin/python -m pytest -ra -q -p no:cacheprovider --timeout=900 --continue-on-collection-errors',
           'source_commits': [], 'add_only': True},
 'engines': [{'name': 'vf', 'path': '/verif/vf', 'serves_properties': claimed,
              'kind_free_text': 'runtime monitoring: reference-model / relational / history monitors, runtime contracts and fault injection around the real code, 16 worker processes'}],
 'checks': checks,
 'notes': 'Runtime monitoring and fault injection only (no sanitizers: the repository has no native code or threads, DESIGN.md 1.1). Exit 2 + INCONCLUSIVE line when a deciding monitor was not reached. known_findings.json lists repaired defects (fixed:) and recorded findings.',
}
if na:
    man['not_applicable'] = na
json.dump(man, open(os.path.join(ROOT, 'MANIFEST.json'), 'w'), indent=1)
print('claimed', claimed)

#!/venv/bin/python
"""bigref (satisfiability-based reference for large bases) against refmodel (world enumeration) on small bases:
partition, infinity layer, acceptability, p / Z / lex answers, W and c bounds.  Usage: bigref_selfcheck.py [n] [seed]"""
import os, sys, random
sys.path.insert(0, os.path.dirname(os.path.dirname(os.path.abspath(__file__))))
from vf import fml, gen, refmodel as rm, bigref, cref
n = int(sys.argv[1]) if len(sys.argv) > 1 else 300
seed = int(sys.argv[2]) if len(sys.argv) > 2 else 0
rng = random.Random(seed)
stats = {'bases': 0, 'answers': 0, 'bounds': 0, 'rejected': 0, 'weak': 0, 'mismatch': 0}
for i in range(n):
    ext = rng.random() < 0.5
    if rng.random() < 0.3:
        sig, conds = gen.rand_base(rng)[:2]
    else:
        sig, conds, _ = gen.gen_base(rng, 'weak_or_strong' if ext else 'strong')
    qs = gen.gen_queries(rng, sig, conds, 6, p_tie=0.4)
    extra = set()
    for (B, A) in qs:
        fml.atoms(B, extra); fml.atoms(A, extra)
    b = rm.Base(sig, conds, extra_atoms=sorted(extra))
    s = rm.Setup(b, ext)
    B_ = bigref.BigBase(sig, conds, extra_atoms=sorted(extra))
    S = bigref.BigSetup(B_, ext)
    stats['bases'] += 1
    if s.ok != S.ok:
        print('MISMATCH ok', sig, conds, ext, s.ok, S.ok); stats['mismatch'] += 1; continue
    if not s.ok:
        stats['rejected'] += 1; continue
    if [sorted(l) for l in s.part] != [sorted(l) for l in S.part] or sorted(s.inf) != sorted(S.inf):
        print('MISMATCH partition', s.part, s.inf, S.part, S.inf); stats['mismatch'] += 1; continue
    if s.inf:
        stats['weak'] += 1
    cs = cref.CSys(b) if (not ext and len(conds) <= 4) else None
    for (Bq, Aq) in qs:
        qv, qf = b.q(Bq, Aq)
        for system in ('p-entailment', 'system-z', 'lex_inf', 'system-w'):
            e = rm.answer(s, system, qv, qf)
            g = S.answer(system, Bq, Aq)
            stats['answers'] += 1
            if e != g:
                print('MISMATCH', system, ext, fml.base_text(sig, conds), fml.cond_text(Bq, Aq), e, g); stats['mismatch'] += 1
        lo, hi = S.bounds('system-w', Bq, Aq)
        w = rm.answer(s, 'system-w', qv, qf)
        stats['bounds'] += 1
        if (lo and not w) or (w and not hi):
            print('MISMATCH W bounds', lo, w, hi); stats['mismatch'] += 1
        if cs is not None:
            c, _ = cs.c_inference(qv & s.feas, qf & s.feas)
            lo, hi = S.bounds('c-inference', Bq, Aq)
            if c is not None and ((lo and not c) or (c and not hi)):
                print('MISMATCH c bounds', lo, c, hi); stats['mismatch'] += 1
print(stats)
sys.exit(1 if stats['mismatch'] else 0)
